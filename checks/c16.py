"""
C16 - a protected program never discloses its text in direct mode.

E1/E2 over direct-mode statements: a Session with hide_protected=True loads a protected
copy of a program whose text contains three unique markers (in a REM, in a DATA item that
is never READ and in a string literal on a line that is never executed).  Then
  single   : EVERY statement template of the statement alphabet (mc/stmtalpha.py, complete
             w.r.t. the token tables) with deviation-bounded argument tuples, plus a
             disclosure-aimed alphabet (line ranges, PEEK/BSAVE over the program's own
             addresses, files on the mount, SCRN:/LPT1:), each in four contexts:
             alone / after a colon / with the program's own ON ERROR handler active /
             after the program has RUN
  pairs    : all ordered pairs of a 'reader' alphabet
is executed in direct mode.  After every statement nothing observable (captured output,
screen, printer file, files on the mount, variables) may contain a marker or a 6-byte
window of one; the statements the property lists must fail with Illegal function call;
SAVE ,P must succeed and reload; RUN must behave as the unprotected original.
"""
import os
import struct
import shutil
import itertools
import logging

logging.disable(logging.CRITICAL)

from mc.core import Leg, Partial, CheckError, chunked
from mc import harness as H
from mc import stmtalpha as A

PROPERTY = 'C16'
ENGINE = 'E1 domain'
LEVEL = 'model_checking'
LEVEL_TEXT = (
    'Bounded exhaustive enumeration of direct-mode statements (every statement template of the parser '
    'alphabet x deviation-bounded argument tuples x 4 contexts, a disclosure-aimed alphabet, and all ordered '
    'pairs of reader statements) against a real Session holding a protected program; every observable channel '
    'is scanned for markers planted in the program text after every statement.')
LEVEL_NOTE = ('Markers are 13-byte unique strings; a leak of fewer than 6 consecutive marker bytes is not detected. '
              'Channels scanned: captured output, screen text, LPT1 file, every file on the mount, a fixed list of '
              'variables. Direct-mode READ of DATA is a known finding (GW-BASIC behaves the same).')
TECHNIQUE = 'bounded exhaustive enumeration of direct-mode statements and statement pairs on a real protected session with marker scanning of all output channels'
RULE = ('statements: every template of mc/stmtalpha.STATEMENTS with <= d non-default arguments, plus the targeted '
        'alphabet, x contexts; class = (keyword, context, outcome in {ifc, other-error, ok})')
ASSUMPTIONS = [
    'markers placed so that RUN cannot legitimately output or store them',
    'line numbers (in error messages, TRON, AUTO) are not program text',
    'with the program\'s own ON ERROR handler active a forbidden statement may fail silently (the IFC is trapped); '
    'only non-disclosure is required there',
]

M_REM = b'QZREMMARK7315'
M_DAT = b'QZDATMARK8426'
M_STR = b'QZSTRMARK9537'
M_SYN = b'QZSYNMARK0648'
MARKERS = {'REM': M_REM, 'DATA': M_DAT, 'STRING': M_STR, 'SYNTAX': M_SYN}
WINDOWS = []
for _kind, _m in MARKERS.items():
    for _i in range(len(_m) - 5):
        WINDOWS.append((_kind, _m[_i:_i + 6]))

PROGRAM = [
    b'10 REM ' + M_REM,
    b'20 DATA ' + M_DAT + b',77',
    b'30 GOTO 50',
    # never evaluated, even when entered with GOTO 40 / RUN 40
    b'40 IF 0 THEN S$="' + M_STR + b'"',
    b'50 PRINT "hello";:X=5:A$="abc":DIM AR(3):AR(1)=9',
    b'60 DEF FNA(Z)=Z+1',
    b'70 END',
    b'80 PRINT "sub":RETURN',
    # a line with a syntax error (GW-BASIC offers such a line for editing when it is executed)
    b'85 PRINT ) :REM ' + M_SYN,
]
PROGRAM_TRAP = PROGRAM[:4] + [
    b'45 ON ERROR GOTO 90',
] + PROGRAM[4:] + [
    b'90 RESUME NEXT',
]
MERGE_FILE = [b'15 PRINT "merged"', b'65 PRINT "m2"']

VARNAMES = ['Q$', 'X!', 'Y!', 'X%', 'X#', 'X$', 'Y$', 'A$', 'B$', 'S$', 'F$', 'G$', 'I!', 'J!', 'I%', 'NOTYET!']

CONTEXTS = ('alone', 'colon', 'trap', 'ran')

MUST_IFC = [
    'LIST', 'LIST 10', 'LIST 10-40', 'LIST -40', 'LIST .', 'LIST ,"SCRN:"', 'LIST ,"L.TXT"', 'LIST 10-,"LPT1:"',
    'LLIST', 'LLIST 10-20', 'EDIT 10', 'EDIT 40', 'SAVE "S1"', 'SAVE "S2",A', 'SAVE "SCRN:",A', 'SAVE "LPT1:",A',
    'PRINT PEEK(0)', 'X=PEEK(1450)', 'BSAVE "B1",0,1000', 'MERGE "M.BAS"', 'CHAIN MERGE "M.BAS"',
    'CHAIN MERGE "M.BAS",15,ALL', '10 REM x', '15 PRINT 1', '40', '65000 X=1',
    'CHAIN MERGE "M.BAS",,DELETE 30-40', 'CHAIN MERGE "M.BAS",,ALL,DELETE 20-60', 'CHAIN MERGE "M.BAS",15,DELETE 50-50',
]

TARGETED = MUST_IFC + [
    'POKE 1450,0', 'POKE 1450,0:LIST', 'DEF SEG:POKE 1450,0:LIST', 'DEF SEG=0:PRINT PEEK(1054)',
    'BLOAD "P.BAS"', 'BLOAD "P.BAS",0', 'LOAD "M.BAS"', 'RUN', 'RUN 10', 'RUN 40', 'GOTO 40', 'GOTO 85', 'RUN 85', 'GOSUB 85', 'EDIT 85', 'GOSUB 80', 'CONT',
    'TRON:RUN', 'AUTO', 'AUTO 10', 'DELETE 10', 'DELETE 10-40', 'RENUM', 'RENUM 100,40', 'NEW', 'CLEAR',
    'READ Q$:PRINT Q$', 'RESTORE:READ Q$', 'RESTORE 20:READ Q$,Q:PRINT Q$', 'READ Q$', 'PRINT S$', 'PRINT FNA(1)',
    'FILES', 'OPEN "P.BAS" FOR INPUT AS 1:LINE INPUT#1,Q$:PRINT Q$:CLOSE', 'SAVE "P2",P', 'SAVE "P2.BAS",P:FILES',
    'NAME "P.BAS" AS "R.BAS"', 'KILL "P.BAS"', 'LCOPY', 'KEY LIST', 'PRINT ERL', 'ERROR 2', 'ERROR 5:LIST',
    'ON ERROR GOTO 80:ERROR 5:LIST', 'ON ERROR GOTO 10:LIST', 'COMMON S$', 'CHAIN "M.BAS"', 'CHAIN "P.BAS",40',
    'FOR I=0 TO 300:PRINT CHR$(PEEK(I));:NEXT', 'WIDTH "LPT1:",80:LLIST', 'OPEN "SCRN:" FOR OUTPUT AS 1:LIST ,"SCRN:"',
    'DRAW "X"+VARPTR$(S$)', 'PLAY "X"+VARPTR$(S$)', 'PRINT VARPTR(S$)', 'SWAP S$,A$:PRINT A$', 'LSET S$="":PRINT S$',
    'EDIT .', 'LIST 40-40', 'SYSTEM', 'SHELL', 'SAVE "LPT1:",P', 'SAVE "LPT1:X",P', 'SAVE "SCRN:",P', 'SAVE "COM1:",P',
    'SAVE "KYBD:",P', 'SAVE "LPT1:"', 'SAVE "SCRN:"', 'LIST ,"COM1:"', 'LIST ,"LPT2:"', 'LIST ,"CAS1:"', 'SAVE "CAS1:X"', 'PRINT FRE("")', 'SAVE "CAS1:X",A', 'SAVE "C:S3.BAS",A',
] + ['PRINT PEEK(%d)' % a for a in range(4700, 4780, 4)] + \
    ['BSAVE "B%d",%d,%d' % (i, a, n) for i, (a, n) in enumerate([(0, 65535), (4717, 200), (1, 1)])]

READERS = [
    'LIST', 'LLIST', 'EDIT 10', 'SAVE "S1"', 'SAVE "S2",A', 'SAVE "P2",P', 'PRINT PEEK(4720)', 'BSAVE "B",0,9999',
    'MERGE "M.BAS"', 'CHAIN MERGE "M.BAS"', 'CHAIN MERGE "M.BAS",,DELETE 30-40', 'CHAIN MERGE "M.BAS",,ALL,DELETE 50-60',
    '15 X=1', 'DELETE 30', 'RENUM', 'POKE 1450,0', 'DEF SEG', 'DEF SEG=0',
    'AUTO', 'RUN', 'ON ERROR GOTO 80', 'ERROR 5', 'TRON', 'CONT', 'GOSUB 80', 'LOAD "P2.BAS"', 'CLEAR',
    'RESTORE', 'READ Q$', 'PRINT Q$', 'KEY OFF', 'X=1',
    # the protected program is dropped and the program memory reused: nothing of it may be left behind
    'NEW', 'LOAD "M.BAS"', '5 REM new', 'SAVE "S3"',
    # statements that replace the program, failing before they do
    'CHAIN "NOSUCH"', 'LOAD "NOSUCH"', 'RUN "NOSUCH"', 'CHAIN "M.BAS",999', 'CHAIN "Q:X"', 'COMMON )',
]


def _make_mount(base):
    """Scratch mount with protected program files (plain and with ON ERROR trap)."""
    mount = os.path.join(base, 'mount')
    os.makedirs(mount)
    for name, prog in (('P', PROGRAM), ('T', PROGRAM_TRAP)):
        s = H.new_session(devices={'C:': mount}, current_device='C:')
        for l in prog:
            r = H.run(s, l)
            if r.err is not None or r.exc is not None:
                raise CheckError('program entry failed: %r' % (r,))
        r = H.run(s, b'SAVE "%s.BAS",P' % name.encode())
        if r.err is not None or r.exc is not None:
            raise CheckError('SAVE ,P failed: %r' % (r,))
        r = H.run(s, b'RUN')
        if name == 'P':
            ref = (r.out, {v: s.get_variable(v) for v in VARNAMES})
        s.close()
    with open(os.path.join(mount, 'M.BAS'), 'wb') as f:
        f.write(b'\r\n'.join(MERGE_FILE) + b'\r\n\x1a')
    with open(os.path.join(mount, 'BL.BIN'), 'wb') as f:
        # memory image for the data segment, offset 1450 (the protection flag), one zero byte
        f.write(b'\xfd' + struct.pack('<HHH', 0x13ad, 1450, 1) + b'\0\x1a')
    keep = {}
    for fn in os.listdir(mount):
        with open(os.path.join(mount, fn), 'rb') as f:
            keep[fn] = f.read()
    return mount, keep, ref


def _session(mount, base, trap):
    lpt = os.path.join(base, 'lpt1.txt')
    s = H.new_session(devices={'C:': mount, 'LPT1:': 'FILE:' + lpt}, current_device='C:', hide_protected=True,
                      horizon=150, at_horizon='close')
    r = H.run(s, b'LOAD "%s.BAS"' % (b'T' if trap else b'P'))
    if r.err is not None or r.exc is not None:
        raise CheckError('LOAD of protected program failed: %r' % (r,))
    # (whether the program is in fact protected now is for the oracle to find out: LIST etc. must fail)
    return s, lpt


def _scan(blob):
    for kind, w in WINDOWS:
        if w in blob:
            return kind
    return None


def _channels(s, r, mount, keep, lpt):
    """Yield (channel name, bytes) for everything observable."""
    yield 'output', r.out
    try:
        yield 'screen', b'\n'.join(b''.join(row) for row in s.get_chars())
    except Exception as e:
        raise CheckError('get_chars failed: %r' % (e,))
    try:
        s._impl.files.lpt1_file.do_print() if hasattr(s._impl.files.lpt1_file, 'do_print') else None
    except Exception:
        pass
    if os.path.exists(lpt):
        with open(lpt, 'rb') as f:
            yield 'printer', f.read()
    for root, dirs, files in os.walk(mount):
        for fn in files:
            if root == mount and fn in keep:
                with open(os.path.join(root, fn), 'rb') as f:
                    if f.read() == keep[fn]:
                        continue
            with open(os.path.join(root, fn), 'rb') as f:
                yield 'file:' + fn, f.read()
    for v in VARNAMES:
        try:
            val = s.get_variable(v)
        except Exception:
            continue
        if isinstance(val, bytes):
            yield 'variable:' + v, val


def _cleanup(mount, keep, lpt):
    for fn in os.listdir(mount):
        if fn not in keep:
            p = os.path.join(mount, fn)
            if os.path.isdir(p):
                shutil.rmtree(p, ignore_errors=True)
            else:
                os.unlink(p)
    # statements such as KILL / NAME / OPEN FOR OUTPUT may have destroyed the fixture files
    for fn, data in keep.items():
        p = os.path.join(mount, fn)
        try:
            with open(p, 'rb') as f:
                same = f.read() == data
        except (IOError, OSError):
            same = False
        if not same:
            if os.path.isdir(p):
                shutil.rmtree(p, ignore_errors=True)
            with open(p, 'wb') as f:
                f.write(data)
    if os.path.exists(lpt):
        os.unlink(lpt)


def _prompt_cycle(s):
    """One turn of the interactive loop with the input stream closed: shows the Ok / EDIT / AUTO
    prompt that a direct statement may have requested (EDIT and syntax errors list the line
    only there).  Returns the bytes written."""
    import io
    from pcbasic.basic.base import error, signals
    out = io.BytesIO()
    inp = s.verif_inputs
    inp.schedule = {}
    inp.polls = 0
    inp._closed = True
    inp._pending = [signals.Event(signals.STREAM_CLOSED)]
    impl = s._impl
    try:
        with impl.io_streams.activate():
            s.add_pipes(output_streams=out)
            try:
                impl.interact()
            except error.Exit:
                pass
            finally:
                s.remove_pipes(output_streams=out)
    finally:
        impl.keyboard._input_closed = False
        impl._auto_mode = False
        inp._pending = []
        inp._closed = False
    return out.getvalue()


def _keyword(stmt):
    if any(part.strip().upper().startswith('READ') for part in stmt.split(':')):
        return 'READ'
    w = stmt.strip().split(' ')[0].split('(')[0].split('=')[0].split(':')[0]
    return w.upper() if not w[:1].isdigit() else 'LINE-ENTRY'


def _run_sequence(part, mount, keep, base, ref, stmts, ctx, must_ifc=False, must_from=0):
    """Execute a sequence of direct-mode lines in a fresh protected session."""
    trap = ctx == 'trap'
    s, lpt = _session(mount, base, trap)
    case = {'statements': list(stmts), 'context': ctx}
    leaked = set()
    try:
        if ctx in ('ran', 'trap'):
            r = H.run(s, b'RUN')
            if ctx == 'ran' and (r.out != ref[0] or r.err is not None):
                part.violation('run/differs-from-original',
                               'protected RUN printed %r, original %r' % (r.out, ref[0]), case)
            if ctx == 'ran':
                vs = {v: s.get_variable(v) for v in VARNAMES}
                if vs != ref[1]:
                    part.violation('run/variables-differ-from-original', 'protected %r original %r' % (vs, ref[1]), case)
        for stmt in stmts:
            text = stmt if ctx != 'colon' else 'Y=2:' + stmt
            if ctx == 'colon' and stmt[:1].isdigit():
                text = stmt      # a program line cannot follow a colon
            try:
                r = H.run(s, text.encode('latin-1'))
            except H.Horizon:
                part.outcome('blocked')
                part.n += 1
                return
            part.n += 1
            part.traces += 1
            kw = _keyword(stmt)
            if not r.exit and r.exc is None:
                try:
                    extra = _prompt_cycle(s)
                except H.Horizon:
                    extra = b''
                    part.outcome('prompt-blocked')
                r.out += extra
                errs = [e for e in H.parse_errors(extra) if e[2]]
                if errs and r.err is None:
                    r.err = errs[-1][0]
            if r.exc is not None:
                # host exceptions are C01's subject; they are not a disclosure unless they carry text
                part.outcome('host-exception')
                if _scan(repr(r.exc).encode('latin-1', 'replace')):
                    part.violation('disclosure/%s/host-exception-text' % kw, repr(r.exc), case)
            for chan, blob in _channels(s, r, mount, keep, lpt):
                kind = _scan(blob)
                if kind and kind not in leaked:
                    # report a leak once, at the statement where it first shows
                    leaked.add(kind)
                    part.violation(
                        'disclosure/%s/%s-marker' % (kw, kind),
                        'context %s, statement %r: %s text of the protected program appears in %s: %r' % (
                            ctx, text, kind, chan, blob[:120]),
                        case)
                    break
            outcome = 'ifc' if r.err == 5 else ('err%s' % r.err if r.err is not None else ('exit' if r.exit else 'ok'))
            part.classes.add('%s/%s/%s' % (kw, ctx, outcome if outcome in ('ifc', 'ok', 'exit') else 'other-error'))
            part.outcome(outcome)
            if must_ifc and not trap and r.err != 5 and stmts.index(stmt) >= must_from:
                part.violation(
                    'must-fail/%s/not-illegal-function-call' % kw,
                    'context %s: %r on a protected program gave %s (output %r), expected Illegal function call' % (
                        ctx, text, outcome, r.out[:80]),
                    case)
            if r.exit:
                return
        if must_ifc and not trap:
            # every statement was refused: "the program still runs exactly as its unprotected original", and SAVE ,P
            # still writes the file it was loaded from
            r = H.run(s, b'SAVE "PZ",P')
            try:
                with open(os.path.join(mount, 'PZ.BAS'), 'rb') as f:
                    data = f.read()
            except (IOError, OSError):
                data = None
            if r.err is not None or r.exc is not None or data != keep['P.BAS']:
                part.violation('refused-statement-changed-program/%s/save-p-differs' % _keyword(stmts[-1]),
                               'context %s, after %r: SAVE ,P gave %r and %s' % (
                                   ctx, stmts, r.err if r.exc is None else r.exc,
                                   'no file' if data is None else 'a file that differs from the original' if data != keep['P.BAS'] else 'the same file'), case)
            r = H.run(s, b'RUN')
            vs = {v: s.get_variable(v) for v in VARNAMES}
            if r.out != ref[0] or r.err is not None or vs != ref[1]:
                part.violation('refused-statement-changed-program/%s/run-differs' % _keyword(stmts[-1]),
                               'context %s, after %r: RUN printed %r (error %r), original %r; variables %s' % (
                                   ctx, stmts, r.out, r.err, ref[0], 'same' if vs == ref[1] else 'differ'), case)
            part.n += 2
    finally:
        try:
            s.close()
        except Exception:
            pass
        _cleanup(mount, keep, lpt)


def _single_statements(quick):
    nums = ['10', '40', '0', '-1', '65535', '4720'] if quick else ['10', '40', '0', '-1', '255', '32767', '65535', '65536', '4720', '1450']
    strs = ['"P.BAS"', '"M.BAS"', '"SCRN:"', '"LPT1:"', '"O.TXT"', 'S$'] if quick else \
        ['"P.BAS"', '"M.BAS"', '"SCRN:"', '"LPT1:"', '"O.TXT"', 'S$', '"KYBD:"', '"*.*"', '""', '"C:\\P"', '"COM1:"',
         '"CAS1:"', '"LPT1:X"']
    out = []
    seen = set()
    for kw in sorted(A.STATEMENTS):
        for t in A.STATEMENTS[kw]:
            for txt in A.deviations(t, nums, strs, 1 if quick else 2):
                if txt not in seen:
                    seen.add(txt)
                    out.append(txt)
    return out


def work_single(shard):
    ctxs, stmts, must = shard
    part = Partial()
    with H.Scratch() as base:
        mount, keep, ref = _make_mount(base)
        for stmt in stmts:
            for ctx in ctxs:
                _run_sequence(part, mount, keep, base, ref, [stmt], ctx, must_ifc=must)
    part.sample({'contexts': list(ctxs), 'statements': stmts[:3]})
    return part


def work_pairs(shard):
    part = Partial()
    with H.Scratch() as base:
        mount, keep, ref = _make_mount(base)
        for a, b in shard:
            _run_sequence(part, mount, keep, base, ref, [a, b], 'alone')
            _run_sequence(part, mount, keep, base, ref, [a, b], 'ran')
    part.sample({'pair': list(shard[0])})
    return part


# memory access must stay refused whatever segment an earlier DEF SEG left behind (segments that alias
# the data segment 13ADh reach the program text at shifted offsets)
SEGMENTS = ['DEF SEG', 'DEF SEG=0', 'DEF SEG=&HB800', 'DEF SEG=&H13AC', 'DEF SEG=&H12AD', 'DEF SEG=&H13AE', 'DEF SEG=&HFFFF',
            'DEF SEG=&H13AD']
MEMORY_ACCESS = ['PRINT PEEK(0)', 'X=PEEK(4736)', 'PRINT PEEK(8816)', 'BSAVE "B1",0,1000', 'BSAVE "B2",4730,200',
                 'POKE 1450,0', 'POKE 1466,0', 'BLOAD "BL.BIN"', 'BLOAD "BL.BIN",1450']


def work_segments(shard):
    part = Partial()
    with H.Scratch() as base:
        mount, keep, ref = _make_mount(base)
        for seg, acc in shard:
            for ctx in ('alone', 'colon', 'ran'):
                _run_sequence(part, mount, keep, base, ref, [seg, acc], ctx, must_ifc=True, must_from=1)
                # and afterwards the program is still protected
                _run_sequence(part, mount, keep, base, ref, [seg, acc, 'LIST'], ctx, must_ifc=True, must_from=1)
    part.sample({'segments': list(shard[0])})
    return part


def work_savep(shard):
    """SAVE ,P succeeds and the saved file reloads and runs like the original."""
    part = Partial()
    with H.Scratch() as base:
        mount, keep, ref = _make_mount(base)
        for ctx in ('alone', 'ran'):
            s, lpt = _session(mount, base, False)
            case = {'statements': ['SAVE "P2",P'], 'context': ctx}
            if ctx == 'ran':
                H.run(s, b'RUN')
            r = H.run(s, b'SAVE "P2",P')
            part.n += 1
            if r.err is not None or r.exc is not None or not os.path.exists(os.path.join(mount, 'P2.BAS')):
                part.violation('savep/failed', 'SAVE ,P of a protected program failed: %r' % (r,), case)
            else:
                with open(os.path.join(mount, 'P2.BAS'), 'rb') as f:
                    data = f.read()
                with open(os.path.join(mount, 'P.BAS'), 'rb') as f:
                    orig = f.read()
                if data != orig:
                    part.violation('savep/file-differs', 'SAVE ,P wrote a different file than the original SAVE ,P', case)
                s2 = H.new_session(devices={'C:': mount}, current_device='C:', hide_protected=True)
                H.run(s2, b'LOAD "P2.BAS"')
                r2 = H.run(s2, b'RUN')
                if r2.out != ref[0]:
                    part.violation('savep/reloaded-run-differs', 'reloaded program printed %r, original %r' % (r2.out, ref[0]), case)
                s2.close()
            part.classes.add('savep/' + ctx)
            s.close()
            _cleanup(mount, keep, lpt)
    return part


def legs(ctx):
    missing = A.assert_complete()
    if missing:
        raise CheckError('statement alphabet incomplete: %r' % (missing,))
    singles = _single_statements(ctx.quick)
    out = [
        Leg('targeted', [(CONTEXTS, c, False) for c in chunked([t for t in TARGETED if t not in MUST_IFC], 6)]
            + [(CONTEXTS, c, True) for c in chunked(MUST_IFC, 6)],
            work_single, exhaustive=True,
            bound='%d disclosure-aimed statements x 4 contexts' % len(TARGETED)),
        Leg('all-statements', [(CONTEXTS if not ctx.quick else ('alone', 'trap'), c, False)
                               for c in chunked(singles, 40)], work_single, exhaustive=True,
            bound='%d instantiations of all %d statement templates (<= %d non-default arguments) x %d contexts' % (
                len(singles), sum(len(v) for v in A.STATEMENTS.values()), 1 if ctx.quick else 2,
                2 if ctx.quick else 4)),
        Leg('pairs', list(chunked([(a, b) for a in READERS for b in READERS], 30)), work_pairs, exhaustive=True,
            bound='all %d ordered pairs of the %d-statement reader alphabet x 2 contexts' % (len(READERS) ** 2, len(READERS))),
        Leg('segments', list(chunked([(a, b) for a in SEGMENTS for b in MEMORY_ACCESS], 8)), work_segments, exhaustive=True,
            bound='%d DEF SEG settings (default, unrelated, and segments aliasing the data segment) x %d PEEK / POKE / BSAVE / '
                  'BLOAD statements x 3 contexts: Illegal function call, and LIST still refused' % (len(SEGMENTS), len(MEMORY_ACCESS))),
        Leg('save-p', [0], work_savep, exhaustive=True, bound='SAVE ,P round trip in 2 contexts'),
    ]
    return out


def replay(ctx, leg, case):
    part = Partial()
    with H.Scratch() as base:
        mount, keep, ref = _make_mount(base)
        stmts = case['statements']
        must = leg == 'targeted' and all(s in MUST_IFC for s in stmts)
        if leg == 'segments':
            _run_sequence(part, mount, keep, base, ref, stmts, case['context'], must_ifc=True, must_from=1)
        else:
            _run_sequence(part, mount, keep, base, ref, stmts, case['context'], must_ifc=must)
    return part
