"""
C25 - random-access files behave as arrays of fixed-length records.

E2: BFS over histories of FIELD / LSET / RSET / PUT / GET / CLOSE / re-OPEN (explicit and implicit
record numbers, gaps, repeats, out-of-range probes) through BASIC statements on scratch files, for
record lengths 1, 2, (8,) 128 and three layouts: one number; two numbers on two files; two numbers
on the SAME file.  Every transition is executed on a freshly rebuilt state (LOF flushes the stream,
so observing must not perturb what is explored) and compared with a list-of-records model.
"""
import os

from mc.core import Leg, Partial, CheckError
from mc import bfs
from mc import harness as H
from models.filemodels import RecordFile

from pcbasic.basic.base import error

PROPERTY = 'C25'
ENGINE = 'E2 bfs'
LEVEL = 'model_checking'
LEVEL_TEXT = (
    'Breadth-first enumeration of every history up to the stated depth over the alphabet '
    '{PUT/GET with record none,1,2,5(,3,12), FIELD (2 layouts), LSET, RSET, CLOSE, re-OPEN, out-of-range '
    'record probes 0,-1,33554436,4E7 and GET at 2^25} on 1-2 file numbers over the same or different '
    'files with LEN=1,2,(8,)128, executed statement by statement on the real interpreter with canonical '
    'de-duplication (file bytes, LOC, FIELD buffer and layout per number; payload letters renamed by '
    'first appearance). After every transition LOC, LOF, all FIELD variables and the host file bytes '
    'are compared with a list-of-records reference model.')
LEVEL_NOTE = (
    'Payload bytes are distinct letters per history position (data independence: the code cannot observe '
    'them). Record numbers are bounded by 12 for PUT so that scratch files stay tiny; 2^25 is probed by '
    'GET only and is a terminal state.')
TECHNIQUE = ('bounded exhaustive enumeration (history BFS with canonical-state de-duplication) of random-file '
             'operation sequences on the real Files/RandomFile/Field code through BASIC statements, against a '
             'list-of-records model')
RULE = ('all operation histories up to depth d per (layout, record length); a case class is (op kind, '
        'position relative to the end of file / record-number class, layout, outcome); non-trivial = '
        'everything except PUT/GET of record 1 on an empty single file')
ASSUMPTIONS = [
    'content of the FIELD buffer after GET of a record beyond the end of the file, and after re-OPEN, is '
    'unspecified by the statement: the model adopts whatever the implementation shows (pcbasic: zeros / '
    'previous buffer)',
    'record numbers pass through single precision as in GW-BASIC: 33554433..33554435 round to 2^25 and are '
    'accepted; the out-of-range probes are values that stay outside 1..2^25 after rounding',
    'a rejected PUT/GET (Bad record number) is expected to leave LOC, file and buffer unchanged (no record '
    'was accessed)',
    'two file numbers open on the same file are judged as if they saw each other\'s PUTs immediately; '
    'pcbasic gives each number its own buffered stream (as GW-BASIC under DOS does not keep them coherent '
    'either: tests/basic/unsorted/LockFilesOutput records that the number closed last prevails), so these '
    'violations carry the suffix /two-numbers-same-file and are proposed as a known finding',
    'LSET/RSET pad with spaces and truncate on the right, as the GW-BASIC manual says',
    'observation uses Session.get_variable for the FIELD variables and X#=LOF(n)/LOC(n)',
]

BAD_REC = error.BAD_RECORD_NUMBER
BIG = 33554432          # 2^25
FILES = (b'F.DAT', b'G.DAT')
VARS = {1: (b'A$', b'B$'), 2: (b'C$', b'D$')}
LAYOUTS = {'one': {1: 0}, 'diff': {1: 0, 2: 1}, 'same': {1: 0, 2: 0}, 'pre': {1: 0}, 'bare': {1: 0}}    # number -> file index
# layout 'bare': as 'one', with the FIELD variables written without their type sigil under DEFSTR A-D
_BARE = [False]


def _v(name):
    return name[:-1] if _BARE[0] else name
# layout 'pre': the file exists before it is opened and its size is not a multiple of the record length
PRE_CONTENT = b'pqrstuv'


def _widths(r):
    w1 = (r + 1) // 2
    return w1, r - w1


def _field_stmt(n, r, lay):
    w1, w2 = _widths(r)
    a, b = VARS[n]
    if lay == 0:
        return b'FIELD#%d,%d AS %s,%d AS %s' % (n, w1, _v(a), w2, _v(b))
    return b'FIELD#%d,%d AS %s,%d AS %s' % (n, w2, _v(b), w1, _v(a))


def _attach(r, lay):
    """-> ((offset, width) of first var, (offset, width) of second var)"""
    w1, w2 = _widths(r)
    if lay == 0:
        return (0, w1), (w1, w2)
    return (w2, w1), (0, w2)


def _letter(depth):
    return bytes(bytearray([65 + depth % 26]))


def _stmt(op, r, depth):
    k = op[0]
    if k in 'PG':
        word = b'PUT' if k == 'P' else b'GET'
        n, rec = op[1], op[2]
        if rec is None:
            return b'%s#%d' % (word, n)
        if isinstance(rec, str):
            return b'%s#%d,%s' % (word, n, rec.encode())
        return b'%s#%d,%d' % (word, n, rec)
    if k == 'S':
        n, var, just = op[1], op[2], op[3]
        return b'%sSET %s="%s"' % (b'L' if just == 'L' else b'R', _v(VARS[n][var]), _letter(depth))
    if k == 'F':
        return _field_stmt(op[1], r, op[2])
    if k == 'C':
        return b'CLOSE#%d' % op[1]
    if k == 'O':
        return b'OPEN "R",%d,"%s",%d' % (op[1], FILES[0], r)   # file name patched by caller
    if k == 'B':
        # a FIELD statement that is refused after its first item (width above 255); Z$ is a scratch variable
        return b'FIELD#%d,1 AS Z$,300 AS Z$' % op[1]
    if k == 'X':
        return b'CLEAR:FIELD...'
    raise CheckError('bad op %r' % (op,))


# ---------------------------------------------------------------------------
# reference model

class Num(object):
    __slots__ = ('open', 'loc', 'buf', 'lay', 'file')

    def copy(self):
        m = Num()
        m.open, m.loc, m.buf, m.lay, m.file = self.open, self.loc, bytearray(self.buf), self.lay, self.file
        return m


class Model(object):
    def __init__(self, layout, r):
        self.r = r
        self.layout = layout
        nums = LAYOUTS[layout]
        self.files = {fi: RecordFile(r, PRE_CONTENT if layout == 'pre' else b'') for fi in set(nums.values())}
        self.writer = {fi: {} for fi in self.files}       # record -> number that wrote it last
        self.nums = {}
        for n, fi in nums.items():
            m = Num()
            m.open, m.loc, m.buf, m.lay, m.file = True, 0, bytearray(r), 0, fi
            self.nums[n] = m

    def copy(self):
        m = Model.__new__(Model)
        m.r, m.layout = self.r, self.layout
        m.files = {k: v.copy() for k, v in self.files.items()}
        m.writer = {k: dict(v) for k, v in self.writer.items()}
        m.nums = {k: v.copy() for k, v in self.nums.items()}
        return m

    def key(self):
        # payload letters renamed by first appearance (0 and space are kept: the code pads with them)
        ren = {0: 0, 32: 32}

        def canon(bs):
            out = bytearray()
            for b in bs:
                if b not in ren:
                    ren[b] = 128 + len(ren)
                out.append(ren[b])
            return bytes(out)
        fk = tuple((fi, canon(self.files[fi].data)) for fi in sorted(self.files))
        nk = tuple((n, s.open, s.loc if s.open else -1, s.lay, canon(s.buf))
                   for n, s in sorted(self.nums.items()))
        return (fk, nk)


def _recnum(rec):
    """Record number addressed by a literal: rounded to the nearest whole number (ties are not generated)."""
    if not isinstance(rec, str):
        return rec
    from fractions import Fraction
    v = Fraction(rec.rstrip('#!'))
    if (v * 2).denominator == 1 and v.denominator != 1:
        raise CheckError('tie record number %r' % rec)
    return int(v + Fraction(1, 2)) if v >= 0 else -int(-v + Fraction(1, 2))


def _rec_class(model, n, rec):
    s = model.nums[n]
    f = model.files[s.file]
    r = s.loc + 1 if rec is None else _recnum(rec)
    frac = isinstance(rec, str) and _recnum(rec) != float(rec.rstrip('#!'))
    nrec = f.nrec()
    if r <= nrec:
        pos = 'inside'
    elif r == nrec + 1:
        pos = 'at-end'
    else:
        pos = 'beyond-end'
    return ('implicit-' if rec is None else 'fractional-' if frac else '') + pos


def _invalid(rec):
    if rec is None:
        return False
    v = _recnum(rec)
    return not (1 <= v <= BIG)


# ---------------------------------------------------------------------------
# the real thing

class ResetRefused(Exception):
    pass


class Real(object):
    def __init__(self, layout, r):
        self.layout, self.r = layout, r
        _BARE[0] = (layout == 'bare')
        self.scratch = H.Scratch()
        self.path = self.scratch.path
        self.s = H.new_session(devices={'C:': self.path}, current_device='C:')
        self.nums = LAYOUTS[layout]

    def done(self):
        try:
            self.s.close()
        except Exception:
            pass
        self.scratch.__exit__()

    def run(self, stmt):
        r = H.run(self.s, stmt)
        if r.exc is not None:
            return ('exc', H.exc_key(r.exc))
        return r.err

    def must(self, stmt):
        res = self.run(stmt)
        if res is not None:
            if getattr(self, 'used', False):
                # the same statement worked when this session was new: something of the histories replayed
                # since then has survived CLOSE / CLEAR and makes a plain OPEN / FIELD / CLEAR fail
                raise ResetRefused(stmt, res)
            if stmt.startswith(b'FIELD') and isinstance(res, int):
                # the FIELD statement that opens every history is itself one of the statements under test
                raise ResetRefused(stmt, res, 'fresh')
            raise CheckError('harness statement %r failed: %r' % (stmt, res))

    def open_stmt(self, n):
        return b'OPEN "R",%d,"%s",%d' % (n, FILES[self.nums[n]], self.r)

    def reset(self):
        self.lay = {n: 0 for n in self.nums}
        self.isopen = {n: True for n in self.nums}
        self.must(b'CLOSE')
        for f in os.listdir(self.path):
            os.remove(os.path.join(self.path, f))
        self.must(b'CLEAR:DEFSTR A-D' if self.layout == 'bare' else b'CLEAR')
        if self.layout == 'pre':
            with open(os.path.join(self.path, FILES[0].decode()), 'wb') as f:
                f.write(PRE_CONTENT)
        for n in sorted(self.nums):
            self.must(self.open_stmt(n))
            self.must(_field_stmt(n, self.r, 0))

    def apply(self, op, depth):
        if op[0] == 'O':
            res = self.run(self.open_stmt(op[1]))
            if res is None:
                self.isopen[op[1]] = True
                self.lay[op[1]] = self.lay.get(op[1], 0)
            return res
        if op[0] == 'X':
            # CLEAR leaves files open; the FIELD variables are gone and are attached again at once
            st = (b'CLEAR:DEFSTR A-D' if self.layout == 'bare' else b'CLEAR') + b''.join(b':' + _field_stmt(n, self.r, self.lay[n]) for n in sorted(self.nums) if self.isopen[n])
            return self.run(st)
        res = self.run(_stmt(op, self.r, depth))
        if res is None and op[0] == 'F':
            self.lay[op[1]] = op[2]
        if res is None and op[0] == 'C':
            self.isopen[op[1]] = False
        return res

    def light_obs(self, model):
        """Non-perturbing observation: FIELD variables (-> buffers)."""
        out = {}
        for n, st in sorted(model.nums.items()):
            a, b = VARS[n]
            out[n] = (bytes(self.s.get_variable(a.decode())), bytes(self.s.get_variable(b.decode())))
        return out

    def buffer(self, model, n, vals):
        """Reassemble the FIELD buffer of number n from the two variables."""
        st = model.nums[n]
        (o1, w1), (o2, w2) = _attach(self.r, st.lay)
        buf = bytearray(self.r)
        if len(vals[0]) != w1 or len(vals[1]) != w2:
            return None
        buf[o1:o1 + w1] = vals[0]
        buf[o2:o2 + w2] = vals[1]
        return buf

    def loc_lof(self, opened):
        """LOC then LOF of the open numbers (LOF flushes: call last)."""
        if not opened:
            return {}, {}
        st = b':'.join(b'K%d#=LOC(%d)' % (n, n) for n in opened)
        self.must(st)
        loc = {n: self.s.get_variable('K%d#' % n) for n in opened}
        self.combined = None
        if len(opened) >= 2:
            # both positions read in one expression
            a, b = opened[0], opened[1]
            self.must(b'K9#=LOC(%d)+LOC(%d)*4096#' % (a, b))
            self.combined = (a, b, self.s.get_variable('K9#'))
        st = b':'.join(b'L%d#=LOF(%d)' % (n, n) for n in opened)
        self.must(st)
        lof = {n: self.s.get_variable('L%d#' % n) for n in opened}
        return loc, lof

    def host(self, fi):
        try:
            with open(os.path.join(self.path, FILES[fi].decode()), 'rb') as f:
                return f.read()
        except IOError:
            return None


def _model_step(model, op, depth, real_bufs=None):
    """Advance the model by op.  real_bufs {n: bytearray} is used only where the statement leaves
    the buffer content unspecified (GET beyond the end, re-OPEN).  Returns (expect_err, note)."""
    k = op[0]
    r = model.r
    if k in 'PG':
        n, rec = op[1], op[2]
        s = model.nums[n]
        f = model.files[s.file]
        if _invalid(rec):
            return BAD_REC, 'bad-record'
        rr = s.loc + 1 if rec is None else _recnum(rec)
        if k == 'P':
            f.put(rr, bytes(s.buf))
            model.writer[s.file][rr] = n
        else:
            content = f.get(rr)
            if content is None:
                if real_bufs is not None and real_bufs.get(n) is not None:
                    s.buf = bytearray(real_bufs[n])
            else:
                s.buf = bytearray(content)
        s.loc = rr
        return None, None
    if k == 'S':
        n, var, just = op[1], op[2], op[3]
        s = model.nums[n]
        o, w = _attach(r, s.lay)[var]
        v = _letter(depth)
        v = (v.ljust(w, b' ') if just == 'L' else v.rjust(w, b' '))[:w]
        s.buf[o:o + w] = v
        return None, None
    if k == 'F':
        model.nums[op[1]].lay = op[2]
        return None, None
    if k == 'B':
        return error.IFC, 'refused-field'
    if k == 'C':
        model.nums[op[1]].open = False
        return None, None
    if k == 'O':
        s = model.nums[op[1]]
        s.open, s.loc = True, 0
        if real_bufs is not None and real_bufs.get(op[1]) is not None:
            s.buf = bytearray(real_bufs[op[1]])
        return None, None
    if k == 'X':
        # what the record buffers hold after CLEAR is not specified: adopt it; files, positions and
        # layouts are as before
        for n, s in model.nums.items():
            if s.open and real_bufs is not None and real_bufs.get(n) is not None:
                s.buf = bytearray(real_bufs[n])
        return None, None
    raise CheckError('bad op %r' % (op,))


def _candidates(cfg, model):
    _, layout, r, recs, probes = cfg
    ops = []
    for n, s in sorted(model.nums.items()):
        if not s.open:
            ops.append(('O', n))
            continue
        for rec in recs:
            ops.append(('P', n, rec))
        for rec in recs:
            ops.append(('G', n, rec))
        ops.append(('G', n, BIG))
        for p in probes:
            ops.append(('P', n, p))
            ops.append(('G', n, p))
        ops.append(('S', n, 0, 'L'))
        ops.append(('S', n, 1, 'R'))
        ops.append(('F', n, 1 - s.lay))
        ops.append(('B', n))
        ops.append(('C', n))
    if all(s.open for s in model.nums.values()):
        # (with a closed number its former FIELD variables would simply vanish)
        ops.append(('X',))
    return ops


def _build(real, model0, ops):
    """Reset the real object and replay ops; returns the model (buffers resynced where unspecified)."""
    real.reset()
    real.used = True
    model = model0.copy()
    for d, op in enumerate(ops):
        res = real.apply(op, d)
        if res is not None:
            raise CheckError('replay op %r failed with %r' % (op, res))
        bufs = None
        if op[0] in 'OX' or (op[0] == 'G' and not _invalid(op[2])):
            lo = real.light_obs(model)
            bufs = {n: real.buffer(model, n, lo[n]) for n in model.nums}
        _model_step(model, op, d, bufs)
    return model


def _suffix(model):
    return 'two-numbers-same-file' if model.layout == 'same' else 'single-number'


def _check(real, cfg, model, op, depth, viols):
    """Apply op to the rebuilt state; compare; returns (info, successor model or None)."""
    suffix = _suffix(model)
    k = op[0]
    cls = k
    if k in 'PG':
        if _invalid(op[2]):
            cls = '%s/bad-record(%s)' % (k, op[2])
        elif op[2] == BIG:
            cls = '%s/2^25' % k
        else:
            cls = '%s/%s' % (k, _rec_class(model, op[1], op[2]))
    elif k == 'S':
        cls = 'S/%sSET' % op[3]
    res = real.apply(op, depth)
    if isinstance(res, tuple):
        viols.append(('%s/host-exception/%s' % (cls, res[1]), 'op %r raised %s' % (op, res[1])))
        return cls + ':exc', None
    # non-perturbing observation first
    lo = real.light_obs(model)
    after = model.copy()
    # where the statement leaves the buffer unspecified, adopt the real one
    probe = model.copy()
    if k == 'F':
        probe.nums[op[1]].lay = op[2]
    real_bufs = {n: real.buffer(probe, n, lo[n]) for n in probe.nums}
    exp_err, _ = _model_step(after, op, depth, real_bufs)
    if exp_err is not None:
        if res != exp_err and k == 'B':
            viols.append(('field/refused-field-%s' % ('accepted' if res is None else 'wrong-error-%s' % res),
                          '%r: got %r, expected Illegal function call' % (_stmt(op, model.r, depth), res)))
        elif res != exp_err:
            viols.append(('%s/out-of-range-record-%s' % (
                'put' if k == 'P' else 'get', 'accepted' if res is None else 'wrong-error-%s' % res),
                '%r: got %r, expected Bad record number (63)' % (_stmt(op, model.r, depth), res)))
    elif res is not None:
        viols.append(('%s/unexpected-error-%s/%s' % (cls, res, suffix),
                      '%r failed with error %r; model state %r' % (_stmt(op, model.r, depth), res, model.key())))
        return cls + ':err%s' % res, None
    # buffers / FIELD variables
    for n, s in sorted(after.nums.items()):
        rb = real_bufs[n]
        if rb is None:
            viols.append(('field/variable-width-changed/%s' % k,
                          'after %r FIELD variables of #%d have lengths %r' % (
                              op, n, [len(x) for x in lo[n]])))
            continue
        if bytes(rb) != bytes(s.buf):
            if k == 'G' and n == op[1]:
                rr = after.nums[n].loc
                w = after.writer[s.file].get(rr)
                if after.layout == 'same' and w not in (None, n):
                    key = 'get/stale-record-after-put-through-other-number/' + suffix
                else:
                    key = 'get/wrong-record-content/%s/%s' % (cls.split('/', 1)[1], suffix)
            elif k == 'S' and n == op[1]:
                key = 'field/%sSET-wrong-buffer' % op[3]
            else:
                key = 'field/buffer-of-#%s-changed-by-%s/%s' % (
                    'same' if n == op[1] else 'other', k, suffix)
            viols.append((key, 'after %r buffer of #%d is %r, model %r' % (
                _stmt(op, model.r, depth), n, bytes(rb)[:16], bytes(s.buf)[:16])))
    opened = [n for n, s in sorted(after.nums.items()) if s.open]
    loc, lof = real.loc_lof(opened)
    for n in opened:
        s = after.nums[n]
        if loc[n] != s.loc:
            viols.append(('loc/wrong-after-%s/%s' % (cls, suffix),
                          'after %r LOC(%d)=%r, expected %d' % (_stmt(op, model.r, depth), n, loc[n], s.loc)))
    if getattr(real, 'combined', None):
        a, b, val = real.combined
        if val != loc[a] + loc[b] * 4096:
            viols.append(('loc/two-numbers-in-one-expression', 'after %r LOC(%d)+LOC(%d)*4096# = %r although LOC(%d)=%r and LOC(%d)=%r' % (
                _stmt(op, model.r, depth), a, b, val, a, loc[a], b, loc[b])))
    for n in opened:
        s = after.nums[n]
        if lof[n] != after.files[s.file].lof():
            viols.append(('lof/wrong-after-%s/%s' % (cls, suffix),
                          'after %r LOF(%d)=%r, expected reclen*highest=%d' % (
                              _stmt(op, model.r, depth), n, lof[n], after.files[s.file].lof())))
    if op[0] == 'G' and op[2] == BIG:
        return cls + ':ok', None      # terminal: never continue from a huge record position
    # host bytes (all open numbers have been flushed by LOF)
    for fi, f in sorted(after.files.items()):
        hb = real.host(fi)
        if hb is None:
            hb = b''
        if hb != bytes(f.data):
            viols.append(('bytes/wrong-after-%s/%s' % (cls, suffix),
                          'after %r file %s holds %r (len %d), model %r (len %d)' % (
                              _stmt(op, model.r, depth), FILES[fi].decode(), hb[:24], len(hb),
                              bytes(f.data)[:24], len(f.data))))
    return cls + (':ok' if res is None else ':err%s' % res), after


def _expand(hist, only_op=None):
    cfg, ops = hist[0], list(hist[1:])
    _, layout, r, recs, probes = cfg
    real = Real(layout, r)
    out = []
    try:
        model0 = Model(layout, r)
        cands = None
        first_light = None
        idx = 0
        while True:
            try:
                model = _build(real, model0, ops)
            except ResetRefused as e:
                if len(e.args) > 2:
                    out.append((('reset',), None, [(
                        'setup/statement-refused-in-a-fresh-session',
                        'in a fresh session, after OPEN, the statement %r fails with error %r' % (e.args[0], e.args[1]))],
                        '%s/setup:refused' % layout))
                    break
                out.append((cands[idx - 1] if cands and idx else ('reset',), None, [(
                    'reset/statement-refused-after-earlier-statements',
                    'after %r and CLOSE, deleting the files and CLEAR, the statement %r fails with error %r (it worked in the new session)' % (
                        cands[idx - 1] if cands and idx else None, e.args[0], e.args[1]))], '%s/reset:refused' % layout))
                break
            lo = real.light_obs(model)
            if first_light is None:
                first_light = lo
                cands = _candidates(cfg, model) if only_op is None else [only_op]
            elif lo != first_light:
                # CLOSE, deleting the files, CLEAR, OPEN and FIELD start every replay: something of the previous
                # statements has survived all of that and changes what the same history does
                out.append((cands[idx - 1] if idx else ('reset',), None, [(
                    'reset/state-survives-close-clear-and-reopen',
                    'the history %r replayed after %r (then CLOSE, files deleted, CLEAR, OPEN, FIELD) leaves the FIELD variables as %r, '
                    'the first time %r' % (ops, cands[idx - 1] if idx else None, lo, first_light))], '%s/reset:differs' % layout))
                break
            if idx >= len(cands):
                break
            op = cands[idx]
            idx += 1
            viols = []
            info, after = _check(real, cfg, model, op, len(ops), viols)
            if viols or after is None:
                key = None
            else:
                key = (cfg,) + after.key()
                if key == (cfg,) + model.key():
                    key = None
            out.append((op, key, viols, '%s/%s' % (layout, info)))
            if idx >= len(cands):
                break
    finally:
        real.done()
    return out


def expand(hist):
    return _expand(hist)


def work_bfs(shard):
    cfg, depth = shard
    part = Partial()
    rk = (cfg,) + Model(cfg[1], cfg[2]).key()
    res = bfs.explore(expand, [(cfg,)], depth, part, root_key=rk, label='bfs')
    part.add('levels', len(res['levels']))
    part.add('unexpanded_frontier', res['unexpanded_frontier'])
    return part


def _cfgs(ctx):
    if ctx.quick:
        recs = (None, 1, 2, 5)
        probes = (0, '33554436')
        return [
            (('cfg', 'one', 2, recs, probes), 5),
            (('cfg', 'one', 1, recs, probes), 4),
            (('cfg', 'one', 128, recs, probes), 4),
            (('cfg', 'diff', 2, recs, ()), 4),
            (('cfg', 'same', 2, recs, ()), 4),
            (('cfg', 'pre', 4, (None, 1, 2, 3, 5), ()), 4),
            (('cfg', 'bare', 2, (None, 1, 2), ()), 4),
            # record numbers with a fraction address the nearest record
            (('cfg', 'one', 2, (None, 1, '2.75', '1.4', '3.6#'), ('.4', '.25#')), 4),
        ]
    recs = (None, 1, 2, 3, 5, 12)
    probes = (0, -1, '33554436', '4E7')
    return [
        (('cfg', 'one', 2, recs, probes), 6),
        (('cfg', 'one', 1, recs, probes), 6),
        (('cfg', 'one', 8, recs, probes), 5),
        (('cfg', 'one', 128, recs, probes), 5),
        (('cfg', 'diff', 2, (None, 1, 2, 5), (0,)), 5),
        (('cfg', 'same', 2, (None, 1, 2, 5), (0,)), 5),
        (('cfg', 'same', 128, (None, 1, 2, 5), ()), 4),
        (('cfg', 'pre', 4, (None, 1, 2, 3, 5), (0,)), 6),
        (('cfg', 'pre', 3, (None, 1, 2, 3, 4), ()), 5),
        (('cfg', 'bare', 2, (None, 1, 2, 5), (0,)), 5),
        (('cfg', 'one', 2, (None, 1, 2, '2.75', '1.4', '3.6#', '4.5001'), ('.4', '.25#', '.0001', '33554436.6#')), 5),
    ]


def legs(ctx):
    out = []
    for cfg, depth in _cfgs(ctx):
        _, layout, r, recs, probes = cfg
        frac = '-fractional' if any(isinstance(x, str) and '.' in x for x in recs) else ''
        out.append(Leg('bfs-%s-len%d%s' % (layout, r, frac), [(cfg, depth)], work_bfs, exhaustive=True, serial=True,
                       bound='all histories to depth %d; layout %s; LEN=%d; PUT/GET record in %r + GET 2^25; '
                             'bad-record probes %r; FIELD x2 layouts, LSET, RSET, CLOSE, re-OPEN' % (
                                 depth, layout, r, recs, probes)))
    return out


def _fix(x):
    if isinstance(x, list):
        return tuple(_fix(i) for i in x)
    return x


def replay(ctx, leg, case):
    part = Partial()
    hist = _fix(case['history'])
    succ = _expand(tuple(hist[:-1]), only_op=hist[-1])
    for op, key, viols, info in succ:
        for vkey, what in viols:
            part.violation(vkey, what, case)
    part.n = 1
    return part
