"""
C27 - BASIC file access stays inside the mounted drives.

Sandbox (fresh per worker, restored after every case that changed it):

    scratch/TOP.TXT
    scratch/outer/{SENTINEL.TXT, A.TXT, SIBLING/S.TXT, SUB/B.TXT}       <- outside
    scratch/outer/mount/{A.TXT, SUB/{B.TXT, DEEP/C.TXT}, <long>.TXT}      <- C:
    scratch/outer/other/{SENTINEL.TXT, emount/{E.TXT, ESUB/F.TXT}}        <- E: = emount
    D:, @:, Z: unmounted (Z: explicitly: pcbasic would otherwise mount it on the process cwd)

Legs
  stmt   E1: every path of the bounded path grammar x 19 file statements x 3 current-directory
         configurations, one BASIC line each on a live Session.
  name   E1: NAME p AS q for all ordered pairs of a path subset x 3 configurations.
  chdir  E2: BFS over CHDIR histories (canonical state = native cwd of C: and E:), to a fixed
         point; every reached cwd must be inside its mount.
Oracle (two independent monitors, both written from the statement):
  (a) audit hook (mc/fsmon.py) active while the BASIC line executes: any audited event on a path
      whose realpath is outside both mount trees (and not interpreter/pcbasic own files);
  (b) content+listing signature of everything in scratch outside the mount trees, before/after.
Severities / keys:
  effect/...   an outside object changed, or an outside file/dir was successfully read/listed
  attempt/...  a mutating/reading call was issued on an outside path (it failed, nothing changed)
"""
import os
import sys
import shutil

from mc.core import Leg, Partial, CheckError, chunked
from mc import harness as H
from mc import fsmon
from mc import bfs
from mc import fast

PROPERTY = 'C27'
ENGINE = 'E1 domain + E2 bfs'
LEVEL = 'model_checking'
LEVEL_TEXT = (
    'Bounded exhaustive enumeration: every path string of a fixed path grammar (prefix x up to 4 '
    'components x separators) is given to each of 19 file statements under 3 current-directory '
    'configurations on the real interpreter, and all CHDIR histories are explored to a fixed point. '
    'A process-wide audit hook sees every host file-system call issued while the BASIC line runs, and '
    'a content signature of everything outside the mounts is compared before/after each line. '
    'Within the stated alphabets no path reaches outside the mounts unless reported.')
LEVEL_NOTE = (
    'Trusted: CPython raises audit events for open/os.listdir/scandir/mkdir/rmdir/remove/rename/'
    'truncate/chdir/shutil.*; stat-type existence probes raise none and are not counted as access. '
    'Symlinks inside a mount and Windows short names are outside the bound.')
TECHNIQUE = ('bounded exhaustive enumeration of DOS path strings x file statements x CHDIR histories on '
             'a live Session against an audit-hook monitor and an outside-content signature')
RULE = ('paths = prefix x component sequences (len<=2 over the full alphabet, len 3 / 4 over sub-alphabets) '
        'x separator variants; a case = (cwd configuration, statement kind, path); a case class = '
        '(statement kind, BASIC error code or ok); non-trivial = every class other than plain success in cwd root')
ASSUMPTIONS = [
    'stat-type probes (os.path.exists/isdir/isfile, os.statvfs) raise no CPython audit event and are not '
    'counted as access',
    'paths under sys.prefix/base_prefix, the pcbasic tree (VERIF_REPO), /verif/{mc,checks,models}, /usr and /dev/null are the '
    'interpreter\'s own files, not access by a BASIC statement',
    'removing or writing the mount root directory itself (RMDIR "\\") counts as inside the mounted tree',
    'internal seam: impl.files.get_device(b"C:").get_native_cwd() is read as the canonical CHDIR state, '
    'impl.files.files to know whether a file was left open',
    'current-directory configurations in the stmt leg are the three CHDIR states (root; SUB with E:ESUB; '
    'SUB\\DEEP); the chdir leg shows these are all states reachable over the path alphabet',
]

LONG = b'LONGFILENAMEWITHFORTYCHARACTERSINTHENAME'
assert len(LONG) == 40

# component alphabets
F = [b'..', b'.', b'...', b'SUB', b'sub', b'DEEP', b'A.TXT', b'NEW', b'*.*', b'S?B',
     b'SENTINEL.TXT', b'SIBLING', b'OTHER', b'', LONG + b'.TXT', b'\x82', b'.. ', b'..\t']
M = [b'..', b'.', b'SUB', b'DEEP', b'A.TXT', b'NEW', b'*.*', b'SENTINEL.TXT', b'SIBLING', b'']
K = [b'..', b'.. ', b'..\t', b'.', b'SUB', b'A.TXT', b'SENTINEL.TXT', b'']
PFX_MOUNTED = [b'', b'\\', b'C:', b'c:', b'C:\\', b'E:', b'E:\\']
PFX_UNMOUNTED = [b'D:', b'D:\\', b'@:', b'Z:']

KINDS = [
    ('OPEN-I', b'OPEN "%s" FOR INPUT AS 1:LINE INPUT#1,A$:CLOSE 1'),
    ('OPEN-O', b'OPEN "%s" FOR OUTPUT AS 1:PRINT#1,"W":CLOSE 1'),
    ('OPEN-A', b'OPEN "%s" FOR APPEND AS 1:PRINT#1,"W":CLOSE 1'),
    ('OPEN-R', b'OPEN "%s" AS 1 LEN=4:FIELD 1,4 AS F$:LSET F$="WXYZ":PUT 1,1:CLOSE 1'),
    ('LOAD', b'LOAD "%s"'),
    ('SAVE', b'SAVE "%s"'),
    ('SAVE-A', b'SAVE "%s",A'),
    ('MERGE', b'MERGE "%s"'),
    ('CHAIN', b'CHAIN "%s"'),
    ('RUN', b'RUN "%s"'),
    ('BLOAD', b'DEF SEG=&HB800:BLOAD "%s",0'),
    ('BSAVE', b'DEF SEG=&HB800:BSAVE "%s",0,16'),
    ('KILL', b'KILL "%s"'),
    ('FILES', b'FILES "%s"'),
    ('MKDIR', b'MKDIR "%s"'),
    ('RMDIR', b'RMDIR "%s"'),
    ('CHDIR', b'CHDIR "%s"'),
    ('NAME-FROM', b'NAME "%s" AS "RENAMED.TXT"'),
    ('NAME-TO', b'NAME "A.TXT" AS "%s"'),
]
KIND_TPL = dict(KINDS)
PROGRAM_KINDS = ('LOAD', 'MERGE', 'CHAIN', 'RUN')

# current-directory configurations: CHDIR statements, and the reference cwd per drive
CFGS = [
    ((), {b'C': [], b'E': []}),
    ((b'C:SUB', b'E:ESUB'), {b'C': [b'SUB'], b'E': [b'ESUB']}),
    ((b'C:SUB\\DEEP',), {b'C': [b'SUB', b'DEEP'], b'E': []}),
]


###############################################################################
# path grammar

def _join(seq, seps):
    out = seq[0]
    for i, c in enumerate(seq[1:]):
        out += seps[i] + c
    return out


def _sequences(quick):
    """(component sequence) list; deterministic."""
    import itertools
    seqs = [(c,) for c in F]
    seqs += list(itertools.product(F, repeat=2))
    if quick:
        seqs += list(itertools.product(K, repeat=3))
    else:
        seqs += list(itertools.product(M, repeat=3))
        seqs += list(itertools.product(K, repeat=4))
    return seqs


def all_paths(quick):
    import itertools
    paths = []
    seen = set()

    def add(p):
        if p not in seen:
            seen.add(p)
            paths.append(p)

    for seq in _sequences(quick):
        body = _join(seq, [b'\\'] * (len(seq) - 1))
        for pfx in PFX_MOUNTED:
            add(pfx + body)
        if len(seq) <= (1 if quick else 2):
            for pfx in PFX_UNMOUNTED:
                add(pfx + body)
    # forward-slash and mixed separators
    slash2 = itertools.product(K if quick else F, repeat=2)
    for seq in slash2:
        for pfx in PFX_MOUNTED:
            add(pfx.replace(b'\\', b'/') + _join(seq, [b'/']))
            add(pfx + _join(seq, [b'/']))
    if quick:
        # UNC look-alikes (doubled leading backslash) one level deeper than the plain quick paths
        for seq in itertools.product(K, repeat=3):
            add(b'\\\\' + _join(seq, [b'\\', b'\\']))
            add(b'E:\\\\' + _join(seq, [b'\\', b'\\']))
    if not quick:
        for seq in itertools.product(K, repeat=3):
            for pfx in PFX_MOUNTED:
                add(pfx + _join(seq, [b'/', b'/']))
                add(pfx + _join(seq, [b'\\', b'/']))
                add(pfx + _join(seq, [b'/', b'\\']))
    return paths


def name_paths():
    import itertools
    one = [b'..', b'.', b'SUB', b'A.TXT', b'NEW', b'SENTINEL.TXT']
    two = [b'..', b'SUB', b'A.TXT']
    bodies = list(one) + [a + b'\\' + b for a, b in itertools.product(two, repeat=2)]
    return [p + b for p in (b'', b'\\', b'C:', b'E:') for b in bodies]


###############################################################################
# reference classification of a path (from DOS semantics, not from the pcbasic source)

def classify(cfg, path):
    """Input class of a path, used in violation keys:
    'dotdot-trailing-blank'  some component is '..' followed by blanks (DOS ignores trailing blanks,
                             so it means '..');
    'leaf-dotdot-at-root'    the last component is '..' and the directory part resolves (with '..'
                             clamped at the root) to the drive root;
    'shape-...'              anything else: the sequence of component types."""
    drive = b'C'
    rest = path
    if b':' in path:
        d, rest = path.split(b':', 1)
        drive = d.upper()
    if b'/' in rest:
        sl = 'slash+'
        rest = rest.replace(b'/', b'\\')
    else:
        sl = ''
    comps = rest.split(b'\\')
    if any(c != c.rstrip() and c.rstrip() == b'..' for c in comps):
        return sl + 'dotdot-trailing-blank'
    stack = [] if rest.startswith(b'\\') else list(CFGS[cfg][1].get(drive, []))
    for c in comps[:-1]:
        if c in (b'', b'.'):
            continue
        if c == b'..':
            if stack:
                stack.pop()
        else:
            stack.append(c)
    if comps[-1] == b'..' and not stack:
        return sl + 'leaf-dotdot-at-root'

    def t(c):
        return {b'..': 'dd', b'.': 'd', b'': 'e'}.get(c, 'w' if (b'*' in c or b'?' in c) else 'n')
    return sl + 'shape-' + '.'.join(t(c) for c in comps)


###############################################################################
# sandbox

def _w(path, data):
    with open(path, 'wb') as f:
        f.write(data)


class Sandbox(object):
    def __init__(self, scratch):
        self.scratch = os.path.realpath(scratch)
        self.outer = os.path.join(self.scratch, 'outer')
        self.mount = os.path.join(self.outer, 'mount')
        self.emount = os.path.join(self.outer, 'other', 'emount')
        self.roots = (self.mount, self.emount)
        self.build()
        self.pristine = self.signature()

    def build(self):
        j = os.path.join
        os.makedirs(j(self.mount, 'SUB', 'DEEP'))
        os.makedirs(j(self.emount, 'ESUB'))
        os.makedirs(j(self.outer, 'SIBLING'))
        os.makedirs(j(self.outer, 'SUB'))
        _w(j(self.scratch, 'TOP.TXT'), b'10 REM OUTSIDE TOP\r\n')
        _w(j(self.outer, 'SENTINEL.TXT'), b'10 REM OUTSIDE SENTINEL\r\n')
        _w(j(self.outer, 'A.TXT'), b'10 REM OUTSIDE A\r\n')
        _w(j(self.outer, 'SIBLING', 'S.TXT'), b'10 REM OUTSIDE S\r\n')
        _w(j(self.outer, 'SUB', 'B.TXT'), b'10 REM OUTSIDE B\r\n')
        _w(j(self.outer, 'other', 'SENTINEL.TXT'), b'10 REM OUTSIDE OTHER\r\n')
        _w(j(self.mount, 'A.TXT'), b'10 REM INSIDE A\r\n')
        _w(j(self.mount, LONG.decode() + '.TXT'), b'10 REM INSIDE LONG\r\n')
        _w(j(self.mount, 'SUB', 'B.TXT'), b'10 REM INSIDE B\r\n')
        _w(j(self.mount, 'SUB', 'DEEP', 'C.TXT'), b'10 REM INSIDE C\r\n')
        _w(j(self.emount, 'E.TXT'), b'10 REM INSIDE E\r\n')
        _w(j(self.emount, 'ESUB', 'F.TXT'), b'10 REM INSIDE F\r\n')

    def signature(self):
        """(outside signature, inside signature) from one walk."""
        full = fsmon.tree_signature(self.scratch)
        relroots = [os.path.relpath(r, self.scratch) for r in self.roots]
        inside, outside = [], []
        for e in full:
            rel = e[0]
            if any(rel == r or rel.startswith(r + os.sep) for r in relroots):
                inside.append(e)
            else:
                outside.append(e)
        return outside, inside

    def restore(self):
        for n in os.listdir(self.scratch):
            p = os.path.join(self.scratch, n)
            if os.path.isdir(p) and not os.path.islink(p):
                shutil.rmtree(p)
            else:
                os.remove(p)
        self.build()
        if self.signature() != self.pristine:
            raise CheckError('C27: sandbox restore did not reproduce the pristine tree')


class Env(object):
    """Per-worker: scratch sandbox + live session + monitor."""

    def __init__(self, codepage=None):
        fast.no_sleep()
        fast.quiet()
        self.codepage = codepage
        self.scr = H.Scratch('pcbverif_c27_')
        self.box = Sandbox(self.scr.path)
        self.mon = fsmon.MONITOR.install()
        import pcbasic
        self.exempt = tuple(sorted(set(fsmon.real(p) for p in (
            sys.prefix, sys.base_prefix, sys.exec_prefix,
            os.path.dirname(os.path.dirname(os.path.abspath(pcbasic.__file__))),
            '/usr',
        ) + tuple(os.path.join(os.path.dirname(os.path.dirname(os.path.abspath(__file__))), d)
                  for d in ('mc', 'checks', 'models')))))
        self.exempt_files = ('/dev/null',)
        self.session = None
        self.new_session()

    def new_session(self):
        if self.session is not None:
            try:
                self.session.close()
            except Exception:
                pass
        kw = {}
        if self.codepage:
            from pcbasic.data import read_codepage
            kw['codepage'] = read_codepage(self.codepage)
        self.session = H.new_session(
            devices={'C': self.box.mount, 'E': self.box.emount, 'Z': None}, current_device='C:',
            horizon=200, **kw)
        impl = self.session._impl
        try:
            c = impl.files.get_device(b'C:')
            e = impl.files.get_device(b'E:')
            c.get_native_cwd, e.get_native_cwd, impl.files.files
        except (AttributeError, KeyError) as ex:
            raise CheckError('C27: internal seam missing: %r' % (ex,))
        if fsmon.real(c.get_native_cwd()) != self.box.mount:
            raise CheckError('C27: C: is not mounted on the sandbox')
        r = H.run(self.session, b'1 REM')
        if r.exc is not None or r.err is not None:
            raise CheckError('C27: cannot enter program line: %r' % (r,))

    def close(self):
        try:
            self.session.close()
        except Exception:
            pass
        self.scr.__exit__()

    def cwds(self):
        f = self.session._impl.files
        return (f.get_device(b'C:').get_native_cwd(), f.get_device(b'E:').get_native_cwd())

    def outside_events(self, events):
        """Audited events with a path outside the mounts: list of (event, kind, realpath, writing)."""
        out = []
        for event, kind, paths, writing in events:
            if kind == 'exec':
                out.append((event, kind, ' '.join(paths), writing))
                continue
            for p in paths:
                rp = fsmon.real(p)
                if fsmon.under(rp, self.box.roots):
                    continue
                if rp in self.exempt_files or fsmon.under(rp, self.exempt):
                    continue
                out.append((event, kind, rp, writing))
        return out

    def run_line(self, line):
        """Run one BASIC line with both monitors -> (Run, outside events, outside_changed, inside_changed)."""
        self.mon.start()
        try:
            r = H.run(self.session, line)
        finally:
            events = self.mon.stop()
        # close anything the line left open, outside the monitored window but before the signature
        if self.session._impl.files.files:
            self.mon.start()
            try:
                H.run(self.session, b'CLOSE')
            finally:
                events += self.mon.stop()
        outside = self.outside_events(events)
        sig = self.box.signature()
        out_changed = sig[0] != self.box.pristine[0]
        in_changed = sig[1] != self.box.pristine[1]
        return r, outside, out_changed, in_changed, sig


class env(object):
    """with env() as e: per-shard sandbox + session, removed on exit."""

    def __init__(self, codepage=None):
        self.codepage = codepage

    def __enter__(self):
        self.e = Env(self.codepage)
        return self.e

    def __exit__(self, *a):
        self.e.close()


def make_line(cfg, stmt):
    pre = fast.TOP + b'CHDIR "C:\\":CHDIR "E:\\":'
    for p in CFGS[cfg][0]:
        pre += b'CHDIR "%s":' % p
    return pre + stmt


def judge(part, e, cfg, kind, path, line, r, outside, out_changed, sig, case, path2=None):
    """Turn monitor results into violations."""
    if r.exc is not None:
        part.violation('host-exception/%s/%s' % (kind, H.exc_key(r.exc)),
                       '%r -> %r' % (line, r.exc), case)
    shape = classify(cfg, path)
    if path2 is not None:
        shape += '>' + classify(cfg, path2)
    if out_changed:
        before = dict((x[0], x[1:]) for x in e.box.pristine[0])
        after = dict((x[0], x[1:]) for x in sig[0])
        diff = sorted(k for k in set(before) | set(after) if before.get(k) != after.get(k))
        part.violation('effect/%s/%s/outside-changed' % (shape, kind),
                       '%r changed objects outside the mounts: %r' % (line, diff[:4]), case)
    for event, ekind, rp, writing in outside:
        rel = os.path.relpath(rp, e.box.scratch) if fsmon.under(rp, (e.box.scratch,)) else rp
        if event == 'open' and not writing and os.path.isfile(rp):
            part.violation('effect/%s/%s/read-outside' % (shape, kind),
                           '%r opened outside file %s for reading' % (line, rel), case)
        elif ekind == 'list' and os.path.isdir(rp):
            part.violation('effect/%s/%s/list-outside' % (shape, kind),
                           '%r listed outside directory %s' % (line, rel), case)
        elif ekind == 'exec':
            part.violation('effect/%s/%s/exec' % (shape, kind), '%r started %s' % (line, rp), case)
        else:
            ev = event + ('-w' if writing else '')
            part.violation('attempt/%s/%s/%s' % (shape, kind, ev),
                           '%r issued %s on outside path %s (BASIC error %r; %s)' % (
                               line, ev, rel, r.err,
                               'outside objects changed' if out_changed else 'nothing outside changed'), case)


def run_case(part, e, cfg, kind, path, path2=None):
    if kind == 'NAME':
        stmt = b'NAME "%s" AS "%s"' % (path, path2)
    else:
        stmt = KIND_TPL[kind] % path
    line = make_line(cfg, stmt)
    case = {'cfg': cfg, 'kind': kind, 'path': path}
    if path2 is not None:
        case['path2'] = path2
    r, outside, out_changed, in_changed, sig = e.run_line(line)
    part.n += 1
    part.traces += 1
    label = '%s:%s' % (kind, 'exc' if r.exc is not None else (r.err if r.err is not None else 'ok'))
    part.outcome(label)
    if not (cfg == 0 and r.err is None):
        part.classes.add(label)
    judge(part, e, cfg, kind, path, line, r, outside, out_changed, sig, case, path2)
    # restore
    if out_changed or in_changed:
        e.box.restore()
    if kind in PROGRAM_KINDS or r.exc is not None:
        if r.exc is not None:
            e.new_session()
        else:
            H.run(e.session, b'NEW')
            H.run(e.session, b'1 REM')
    return r


###############################################################################
# legs

def work_stmt(shard):
    cfg, paths = shard
    part = Partial()
    with env() as e:
        for path in paths:
            for kind, _ in KINDS:
                run_case(part, e, cfg, kind, path)
    part.sample({'cfg': cfg, 'kind': 'FILES', 'path': paths[0]})
    return part


# double-byte codepages: byte pairs without a mapping are dropped when a name is converted for the host file system;
# what is left of a component may be '..', '.' or nothing
DBCS_CODEPAGE = '932'
DBCS_JUNK = b'\x81\xad'
DBCS_COMPONENTS = [b'..' + DBCS_JUNK, DBCS_JUNK + b'..', b'.' + DBCS_JUNK, DBCS_JUNK, b'.' + DBCS_JUNK + b'.', b'SUB', b'..',
                   b'SENTINEL.TXT', b'A.TXT', b'SIBLING', b'\x83\x41']


def dbcs_paths():
    import itertools
    out = []
    for n in (1, 2, 3):
        for seq in itertools.product(DBCS_COMPONENTS, repeat=n):
            if not any(DBCS_JUNK in c for c in seq):
                continue
            if n == 3 and not (DBCS_JUNK in seq[0] or DBCS_JUNK in seq[1]):
                continue
            for pfx in (b'', b'E:\\'):
                out.append(pfx + b'\\'.join(seq))
    return out


def work_dbcs(shard):
    cfg, paths = shard
    part = Partial()
    with env(DBCS_CODEPAGE) as e:
        for path in paths:
            for kind, _ in KINDS:
                run_case(part, e, cfg, kind, path)
    part.sample({'cfg': cfg, 'kind': 'CHDIR', 'path': paths[0], 'codepage': DBCS_CODEPAGE})
    return part


def work_name(shard):
    cfg, pairs = shard
    part = Partial()
    with env() as e:
        for p, q in pairs:
            run_case(part, e, cfg, 'NAME', p, q)
    part.sample({'cfg': cfg, 'kind': 'NAME', 'path': pairs[0][0], 'path2': pairs[0][1]})
    return part


# ---- CHDIR BFS

def chdir_ops(quick):
    import itertools
    comps = K if quick else M
    bodies = [b''] + [c for c in F] + [a + b'\\' + b for a, b in itertools.product(comps, repeat=2)]
    ops = []
    for pfx in (b'', b'\\', b'C:', b'C:\\', b'E:', b'E:\\', b'D:'):
        for b in bodies:
            if pfx + b and pfx + b not in ops:
                ops.append(pfx + b)
    ops += [b'ESUB', b'E:ESUB', b'E:\\ESUB', b'E:ESUB\\..', b'C:/SUB', b'SUB/DEEP']
    return ops


def _expand_chdir(hist, ops):
    """hist: tuple of CHDIR arguments applied from the session's initial state (cwd = both roots)."""
    out = []
    with env() as e:
        def goto():
            line = b'CHDIR "C:\\":CHDIR "E:\\"'
            for p in hist:
                line += b':CHDIR "%s"' % p
            r = H.run(e.session, line)
            if r.exc is not None or r.err is not None:
                raise CheckError('C27 chdir: cannot replay history %r: %r' % (hist, r))
        goto()
        base = e.cwds()
        for op in ops:
            line = b'CHDIR "%s"' % op
            r, outside, out_changed, in_changed, sig = e.run_line(line)
            tmp = Partial()
            judge(tmp, e, 0, 'CHDIR', op, line, r, outside, out_changed, sig, None)
            viols = [(k, w + ' after CHDIR history %r' % (list(hist),)) for k, w, _ in tmp.viol]
            cw = e.cwds()
            escaped = False
            for drive, c, root in ((b'C', cw[0], e.box.mount), (b'E', cw[1], e.box.emount)):
                rc = fsmon.real(c)
                if not fsmon.under(rc, (root,)):
                    escaped = True
                    viols.append(('effect/%s/CHDIR/cwd-outside-mount' % classify(0, op),
                                  'CHDIR %r after %r: current directory of %s: is %s, outside the mount' % (
                                      op, list(hist), drive.decode(), rc)))
            info = 'chdir:%s' % ('exc' if r.exc is not None else (r.err if r.err is not None else 'ok'))
            key = None
            if r.exc is None and r.err is None and not escaped:
                # (a state whose cwd is outside a mount is reported once and not expanded further)
                key = (os.path.relpath(fsmon.real(cw[0]), e.box.mount),
                       os.path.relpath(fsmon.real(cw[1]), e.box.emount))
            if out_changed or in_changed:
                e.box.restore()
            if r.exc is not None:
                e.new_session()
                goto()
            elif cw != base:
                goto()
            out.append((op, key, viols, info))
    return out


def expand_chdir_quick(hist):
    return _expand_chdir(hist, chdir_ops(True))


def expand_chdir_thorough(hist):
    return _expand_chdir(hist, chdir_ops(False))


def work_chdir(shard):
    quick, depth = shard
    part = Partial()
    res = bfs.explore(expand_chdir_quick if quick else expand_chdir_thorough, [()], depth, part,
                      root_key=('.', '.'), chunk=1, label='chdir')
    part.add('chdir_ops', len(chdir_ops(quick)))
    part.sample({'chdir_levels': res['levels'], 'fixed_point': res['fixed_point']})
    return part


def legs(ctx):
    paths = all_paths(ctx.quick)
    shards = []
    size = 40 if ctx.quick else 120
    for cfg in range(len(CFGS)):
        for ch in chunked(paths, size):
            shards.append((cfg, ch))
    out = [Leg('stmt', shards, work_stmt, exhaustive=True,
               bound='%d path strings (7 mounted + 4 unmounted prefixes; all component sequences of '
                     'length <=2 over %d components, length 3 over %d%s; backslash, slash and mixed '
                     'separators) x %d statement kinds x %d cwd configurations' % (
                         len(paths), len(F), len(K) if ctx.quick else len(M),
                         '' if ctx.quick else ', length 4 over %d' % len(K), len(KINDS), len(CFGS)))]
    np_ = name_paths()
    pairs = [(p, q) for p in np_ for q in np_]
    shards = [(cfg, ch) for cfg in range(len(CFGS)) for ch in chunked(pairs, 150)]
    out.append(Leg('name', shards, work_name, exhaustive=True,
                   bound='NAME p AS q for all %d ordered pairs of %d paths x %d cwd configurations' % (
                       len(pairs), len(np_), len(CFGS))))
    dp = dbcs_paths()
    out.append(Leg('dbcs', [(cfg, ch) for cfg in (0, 2) for ch in chunked(dp, 60)], work_dbcs, exhaustive=True,
                   bound='codepage %s: %d paths of 1..3 components over %d (with byte pairs the codepage does not map, next to dots) x %d '
                         'statement kinds x 2 cwd configurations' % (DBCS_CODEPAGE, len(dp), len(DBCS_COMPONENTS), len(KINDS))))
    depth = 6
    out.append(Leg('chdir', [(ctx.quick, depth)], work_chdir, exhaustive=True, serial=True,
                   bound='BFS over CHDIR histories, %d CHDIR arguments per state, depth <= %d or fixed point '
                         '(canonical state = native cwd of C: and E:)' % (len(chdir_ops(ctx.quick)), depth)))
    return out


def replay(ctx, leg, case):
    part = Partial()
    if 'history' in case:
        hist = [h if isinstance(h, bytes) else h.encode('latin-1') for h in case['history']]
        for op, key, viols, info in _expand_chdir(tuple(hist[:-1]), [hist[-1]]):
            for k, w in viols:
                part.violation(k, w, case)
    else:
        with env(DBCS_CODEPAGE if leg == 'dbcs' else None) as e:
            run_case(part, e, case['cfg'], case['kind'], case['path'], case.get('path2'))
    return part
