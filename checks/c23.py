"""
C23 - RUN, CLEAR and NEW reset everything; CHAIN keeps exactly the COMMON variables.

E2-style exhaustive history enumeration (no sampling), every case on a FRESH session:
  reset   every subset of <=3 (quick) / <=4 (thorough) state builders out of 20 (scalars of 4 types,
          literal / heap / 255-char strings, string churn, 1-D int, string and 2-D arrays, DEF FN, DEFtype,
          OPTION BASE 1, open FOR / WHILE / GOSUB frames, ON ERROR GOTO, stopped inside the error
          handler, RANDOMIZE+RND) built by a program that STOPs inside its frames, followed by each of 13
          reset operations (RUN, RUN n, CLEAR [,m] [,,s], NEW - from direct mode and from inside the
          frames -, adding / deleting a line, DELETE) and a fixed battery of observations.
  chain   every ordered history of <=2 / <=3 variable operations out of 10, x 24 COMMON lists (incl. a scalar and an array of the same name in both orders, in one and in two COMMON statements; all 16
          subsets of {A!,B$,C%(),D$()} and three more) x CHAIN / CHAIN ,line / ,,ALL / MERGE /
          MERGE+DELETE / MERGE ALL x OPTION BASE 0/1 x normal / tight memory.
Oracle: a dict model of what the builders assigned; fresh-session values for everything else.
"""
import os
from itertools import combinations, permutations

from mc.core import Leg, Partial, CheckError, chunked
from mc import harness as H

PROPERTY = 'C23'
ENGINE = 'E2 bfs'
LEVEL = 'model_checking'
LEVEL_TEXT = (
    'All combinations of up to 4 (quick: 3) state builders out of 20 - each touching one component named '
    'in the property (variables of every type, arrays, DEF FN, DEFtype, OPTION BASE, FOR/WHILE/GOSUB '
    'frames, error trap, active error handler, random sequence) - are built on a fresh interpreter, '
    'followed by each of 13 forms of RUN / CLEAR / NEW / line edit, and every component is then observed '
    'through BASIC. For CHAIN every ordered history of up to 3 (quick: 2) variable operations is combined '
    'with 24 COMMON lists, 6 CHAIN forms, OPTION BASE 0/1 and normal / tight memory, and presence and '
    'exact value of every name of a fixed universe is compared with a dict model. Enumeration is '
    'exhaustive within these bounds; no state merging is needed at this depth.')
LEVEL_NOTE = (
    'Observation is through BASIC statements in direct mode (VARPTR, DIM, FN call, RETURN/NEXT/WEND/RESUME, '
    'RND, GOTO into a line that raises an error) and Session.get_variable for exact values; the universe '
    'of names is fixed (5 scalars, 3 arrays).')
TECHNIQUE = ('bounded exhaustive enumeration of state-building histories x reset / CHAIN forms on the real '
             'interpreter through Session.execute, compared with a dict model of the assigned values and '
             'with fresh-session behaviour')
RULE = ('reset: all builder subsets up to size k x 13 reset forms; chain: all ordered variable histories up '
        'to length d x COMMON lists x CHAIN forms x base x memory; a case class is (reset kind, builder) / '
        '(reset form, number of builders) / (CHAIN form, history length, COMMON size, base, memory, outcome); non-trivial = any case with at least one builder')
ASSUMPTIONS = [
    'absence of a scalar is observed as VARPTR raising Illegal function call; absence of an array as '
    'DIM succeeding; values through Session.get_variable (public API)',
    'ERR/ERL, event traps (KEY/PEN/...), DATA pointer, open files and PLAY/DRAW state are not named by the '
    'statement and are not judged',
    'the error trap is observed three ways: a direct-mode ERROR 77 must be reported untrapped; PRINT 1/0 must '
    'behave as in a fresh session (ON ERROR GOTO turns the soft Overflow / Division by zero handling into hard '
    'errors - that switch belongs to the trap); and, where a program is left, GOTO into a line raising an error',
    'after CHAIN only variables are judged, plus DEF FN / DEFtype for a CHAIN without MERGE and without ALL '
    '(GW-BASIC manual: only then they are not passed on); OPTION BASE after CHAIN is not judged',
    'Out of memory / Out of string space raised by CHAIN or while building is accepted in the tight-memory cases only '
    '(recorded as an outcome)',
    'COMMON lists and all references use explicit type sigils',
]

FRESH_RND = None
FRESH_DIV0 = None


# ---------------------------------------------------------------------------
# model of the variable universe

SCALARS = ['A!', 'I%', 'D#', 'B$', 'L$']
ARRAYS = ['C%', 'D$', 'A!']

# variable operations: id -> (statement, effect on model)
VAROPS = {
    'sA': 'A!=1.5',
    'sI': 'I%=-7',
    'sD': 'D#=1.25D+10',
    'sB': 'B$="lit"',
    'sH': 'B$="he"+"ap"',
    'sL': 'L$=STRING$(255,"z")',
    'gc': 'B$=B$+"1":B$=B$+"2":L$=""',
    # a run-time empty string shares its address with the string stored just before it
    'sE': 'B$="he"+"ap":L$=LEFT$(B$,0)',
    'aC': 'DIM C%(3):C%(1)=11:C%(3)=33',
    # D$(3) is a run-time empty string: it shares its address with the string stored just before it
    # ... and D$(4) is long, stored below the short ones (it is the one that does not fit when memory is short)
    'aD': 'DIM D$(4):D$(1)="p":D$(2)="q"+"r":D$(3)=LEFT$(D$(2),0):D$(4)=STRING$(200,"w")',
    'aE': 'DIM A!(1,2):A!(1,2)=2.5:A!(1,1)=7',
    # a string that lives in the record buffer of an open random file (chain leg only)
    'sF': 'OPEN "R.DAT" AS 1 LEN=8:FIELD 1,8 AS B$:LSET B$="HELLO"',
}
VARORDER = ['sA', 'sI', 'sD', 'sB', 'sH', 'sL', 'gc', 'sE', 'aC', 'aD', 'aE']
CHAIN_VARORDER = VARORDER + ['sF']


def _apply_varop(m, op, base):
    sc, ar = m['sc'], m['ar']
    if op == 'sA':
        sc['A!'] = 1.5
    elif op == 'sI':
        sc['I%'] = -7
    elif op == 'sD':
        sc['D#'] = 1.25e10
    elif op == 'sB':
        sc['B$'] = b'lit'
    elif op == 'sH':
        sc['B$'] = b'heap'
    elif op == 'sL':
        sc['L$'] = b'z' * 255
    elif op == 'gc':
        sc['B$'] = sc.get('B$', b'') + b'12'
        sc['L$'] = b''
    elif op == 'sE':
        sc['B$'] = b'heap'
        sc['L$'] = b''
    elif op == 'sF':
        sc['B$'] = b'HELLO   '
    elif op == 'aC':
        v = [0, 11, 0, 33]
        ar['C%'] = v[base:]
    elif op == 'aD':
        v = [b'', b'p', b'qr', b'', b'w' * 200]
        ar['D$'] = v[base:]
    elif op == 'aE':
        v = [[0.0, 0.0, 0.0], [0.0, 7.0, 2.5]]
        ar['A!'] = [row[base:] for row in v[base:]]


def _new_model():
    return {'sc': {}, 'ar': {}}


FRESH_VALUE = {'!': 0.0, '%': 0, '#': 0.0, '$': b''}

# other builders (reset leg)
OTHER = ['fn', 'dt', 'ob', 'fF', 'fW', 'fG', 'oe', 'eh', 'rn']
BUILDERS = VARORDER + OTHER      # 20


def _program(builders, stop_stmt, common=None, order=None):
    """Program text (list of bytes lines)."""
    b = set(builders)
    L = ['10 END', '12 REM PADDINGPADDINGPADDING']
    if common:
        # ('/' in the list starts a new COMMON statement)
        L.append('15 COMMON ' + ','.join(common).replace(',/,', ':COMMON '))
    L.append('20 OPTION BASE 1' if 'ob' in b else '20 REM')
    if 'dt' in b:
        L.append('25 DEFINT A-C:DEFSTR S')
    n = 30
    for op in (order if order is not None else [x for x in VARORDER if x in b]):
        L.append('%d %s' % (n, VAROPS[op]))
        n += 2
    if 'fn' in b:
        L.append('300 DEF FNF(X)=X+1:DEF FNG$(X$)=X$+"!"')
    if 'rn' in b:
        L.append('310 RANDOMIZE 7:Q9!=RND')
    if 'oe' in b or 'eh' in b:
        L.append('320 ON ERROR GOTO 900')
    L.append('500 GOSUB 600' if 'fG' in b else '500 GOTO 600')
    L.append('510 END')
    L.append('600 FOR J9%=1 TO 3' if 'fF' in b else '600 REM')
    L.append('610 WHILE 1' if 'fW' in b else '610 REM')
    L.append('620 ' + ('ERROR 77' if 'eh' in b else stop_stmt))
    L.append('630 WEND' if 'fW' in b else '630 REM')
    L.append('640 NEXT' if 'fF' in b else '640 REM')
    L.append('650 RETURN' if 'fG' in b else '650 END')
    L.append('900 PRINT "TRAPPED";:' + (stop_stmt if 'eh' in b else 'STOP'))
    L.append('1000 END')
    L.append('2000 ERROR 77')
    L.append('2010 END')
    return [l.encode() for l in L]


# reset forms: (label, class for keys, where, statement)
RESETS = [
    ('RUN', 'run', 'direct', 'RUN'),
    ('RUN 1000', 'run', 'direct', 'RUN 1000'),
    ('RUN 1000 (in program)', 'run', 'inprog', 'RUN 1000'),
    # RUN to a line that does not exist: everything is reset, then Undefined line number is reported
    ('RUN 7777 (missing line)', 'run', 'direct', 'RUN 7777', 8),
    ('RUN 7777 (missing line, in program)', 'run', 'inprog', 'RUN 7777', 8),
    ('CLEAR', 'clear', 'direct', 'CLEAR'),
    ('CLEAR (in program)', 'clear', 'inprog', 'CLEAR:STOP'),
    ('CLEAR ,32768', 'clear', 'direct', 'CLEAR ,32768!'),
    ('CLEAR ,,256 (in program)', 'clear', 'inprog', 'CLEAR ,,256:STOP'),
    ('CLEAR 100', 'clear', 'direct', 'CLEAR 100'),
    ('NEW', 'new', 'direct', 'NEW'),
    ('NEW (in program)', 'new', 'inprog', 'NEW:STOP'),
    ('add line', 'edit', 'direct', '5 REM'),
    ('delete line', 'edit', 'direct', '12'),
    ('DELETE', 'edit', 'direct', 'DELETE 12'),
]


class Case(object):
    """One fresh session with a scratch drive."""

    def __init__(self, files=None):
        self.scratch = H.Scratch()
        self.path = self.scratch.path
        for name, content in (files or {}).items():
            with open(os.path.join(self.path, name), 'wb') as f:
                f.write(content)
        self.s = H.new_session(devices={'C:': self.path}, current_device='C:')

    def done(self):
        try:
            self.s.close()
        except Exception:
            pass
        self.scratch.__exit__()

    def run(self, stmt):
        if isinstance(stmt, str):
            stmt = stmt.encode()
        return H.run(self.s, stmt)

    def enter(self, lines):
        for l in lines:
            r = self.run(l)
            if r.exc is not None or r.err is not None:
                raise CheckError('entering %r failed: %r' % (l, r))


def _fresh_rnd():
    global FRESH_RND, FRESH_DIV0
    if FRESH_RND is None:
        s = H.new_session()
        r = H.run(s, b'PRINT RND')
        FRESH_RND = r.out
        r = H.run(s, b'PRINT 1/0')
        FRESH_DIV0 = (r.out, r.err)
        s.close()
    return FRESH_RND


def _fresh_div0():
    _fresh_rnd()
    return FRESH_DIV0


class ImplError(Exception):
    """A non-BASIC exception raised inside pcbasic while the harness observes a variable."""


def _getvar(s, name):
    try:
        return s.get_variable(name)
    except Exception as e:
        from mc.core import from_pcbasic
        if from_pcbasic(e):
            raise ImplError('get_variable(%r): %s' % (name, H.exc_key(e)))
        raise


def _get(s, name):
    v = _getvar(s, name)
    if isinstance(v, bytearray):
        v = bytes(v)
    return v


def _tolist(v):
    if isinstance(v, (list, tuple)):
        return [_tolist(x) for x in v]
    if isinstance(v, bytearray):
        return bytes(v)
    return v


def _observe_vars(c, expect, cls, viol):
    try:
        return _observe_vars_(c, expect, cls, viol)
    except ImplError as e:
        viol('%s/host-exception/%s' % (cls, str(e).split(': ')[-1]),
             'reading a variable raised a non-BASIC exception: %s' % e)
        return False


def _observe_vars_(c, expect, cls, viol):
    """expect: {'sc': {...}, 'ar': {...}} of what must be present; everything else of the universe absent.
    Returns False if something was wrong."""
    s = c.s
    ok = True
    # 1. presence of scalars (before anything could create them)
    for name in SCALARS:
        r = c.run('PRINT VARPTR(%s)' % name)
        if r.exc is not None:
            viol('%s/host-exception/%s' % (cls, H.exc_key(r.exc)), 'VARPTR(%s): %r' % (name, r.exc))
            return False
        present = r.err is None
        if name in expect['sc'] and not present:
            viol('%s/common-scalar-lost/%s' % (cls, name[-1]), '%s should have survived but does not exist '
                 '(VARPTR err %s)' % (name, r.err))
            ok = False
        elif name not in expect['sc'] and present:
            viol('%s/scalar-survives/%s' % (cls, name[-1]), '%s still exists (VARPTR=%s)' % (name, r.out.strip()))
            ok = False
    # 2. values
    for name in SCALARS:
        got = _get(s, name)
        exp = expect['sc'].get(name, FRESH_VALUE[name[-1]])
        if got != exp:
            what = 'value-changed' if name in expect['sc'] else 'value-survives'
            viol('%s/scalar-%s/%s' % (cls, what, name[-1]), '%s = %r, expected %r' % (
                name, got if not isinstance(got, bytes) else got[:30], exp if not isinstance(exp, bytes) else exp[:30]))
            ok = False
    for name in ARRAYS:
        got = _tolist(_getvar(s, name + '()'))
        if name in expect['ar']:
            if got != expect['ar'][name]:
                viol('%s/array-%s/%s' % (cls, 'lost' if not got else 'content-changed', name[-1]),
                     '%s() = %r, expected %r' % (name, got, expect['ar'][name]))
                ok = False
        elif got:
            viol('%s/array-survives/%s' % (cls, name[-1]), '%s() still exists: %r' % (name, got))
            ok = False
    return ok


def _observe_arrays_dim(c, expect, cls, viol):
    dims = {'C%': 'C%(1)', 'D$': 'D$(1)', 'A!': 'A!(1,1)'}
    ok = True
    for name in ARRAYS:
        r = c.run('DIM ' + dims[name])
        if r.exc is not None:
            viol('%s/host-exception/%s' % (cls, H.exc_key(r.exc)), 'DIM %s: %r' % (name, r.exc))
            return False
        if name in expect['ar']:
            if r.err is None:
                viol('%s/array-lost/%s' % (cls, name[-1]), 'DIM %s succeeded: the array did not survive' % dims[name])
                ok = False
        elif r.err is not None:
            viol('%s/array-survives/%s' % (cls, name[-1]), 'DIM %s fails with %s: the array still exists' % (
                dims[name], r.err))
            ok = False
    return ok


def _observe_fn_deftype(c, cls, viol):
    ok = True
    r = c.run('PRINT FNF(2)')
    if r.exc is not None:
        viol('%s/host-exception/%s' % (cls, H.exc_key(r.exc)), 'FNF: %r' % (r.exc,))
        return False
    if r.err != 18:
        viol('%s/def-fn-survives' % cls, 'PRINT FNF(2) gives %r err %r, expected Undefined user function' % (
            r.out, r.err))
        ok = False
    r = c.run('S=2.5:PRINT S')
    if r.err is not None or r.out.strip() != b'2.5':
        viol('%s/deftype-survives/DEFSTR' % cls, 'S=2.5:PRINT S gives %r err %r' % (r.out, r.err))
        ok = False
    r = c.run('B=2.5:PRINT B')
    if r.err is not None or r.out.strip() != b'2.5':
        viol('%s/deftype-survives/DEFINT' % cls, 'B=2.5:PRINT B gives %r err %r' % (r.out, r.err))
        ok = False
    return ok


def _observe_reset(c, cls, viol, has_program, builders):
    """Everything must look like a fresh session."""
    empty = _new_model()
    # error trap first (a surviving trap would hijack every later error-based observation):
    # an error raised in direct mode must simply be reported
    r = c.run('ERROR 77')
    if r.exc is not None:
        viol('%s/host-exception/%s' % (cls, H.exc_key(r.exc)), 'ERROR 77: %r' % (r.exc,))
        return
    if b'TRAPPED' in r.out or r.err not in (-1, 77) or r.erl is not None:
        viol('%s/error-trap-survives' % cls, 'direct ERROR 77 gave %r (err %r, line %r): the old ON ERROR GOTO '
             'is still armed' % (r.out[:60], r.err, r.erl))
        return
    # ON ERROR GOTO also switches Overflow / Division by zero from "message and continue" to hard
    # errors; that switch is part of the trap and must be back to the fresh-session behaviour
    r = c.run('PRINT 1/0')
    if r.exc is not None:
        viol('%s/host-exception/%s' % (cls, H.exc_key(r.exc)), 'PRINT 1/0: %r' % (r.exc,))
        return
    if (r.out, r.err) != _fresh_div0():
        viol('%s/error-trap-survives/soft-math-errors-still-hard' % cls,
             'PRINT 1/0 gives %r (err %r); a fresh session gives %r (err %r)' % (
                 (r.out[:60], r.err) + _fresh_div0()))
        return
    if not _observe_vars(c, empty, cls, viol):
        return
    if not _observe_fn_deftype(c, cls, viol):
        return
    # random sequence
    r = c.run('PRINT RND')
    if r.out != _fresh_rnd():
        viol('%s/random-sequence-survives' % cls, 'first RND is %r, fresh session gives %r' % (
            r.out.strip(), _fresh_rnd().strip()))
        return
    # stacks
    for stmt, err, what in (('RETURN', 3, 'gosub-stack'), ('NEXT', 1, 'for-stack'), ('WEND', 30, 'while-stack'),
                            ('RESUME', 20, 'active-error-handler')):
        r = c.run(stmt)
        if r.exc is not None:
            viol('%s/host-exception/%s' % (cls, H.exc_key(r.exc)), '%s: %r' % (stmt, r.exc))
            return
        if r.err != err:
            viol('%s/%s-survives' % (cls, what), 'direct %s gives output %r err %r, expected error %d' % (
                stmt, r.out[:40], r.err, err))
            return
    # OPTION BASE
    r = c.run('Z9(0)=1')
    if r.err is not None:
        viol('%s/option-base-survives' % cls, 'Z9(0)=1 fails with %s' % r.err)
        return
    if not _observe_arrays_dim(c, empty, cls, viol):
        return
    # error trap: raise an error in program mode
    if has_program:
        r = c.run('GOTO 2000')
        if r.exc is not None:
            viol('%s/host-exception/%s' % (cls, H.exc_key(r.exc)), 'GOTO 2000: %r' % (r.exc,))
            return
        if b'TRAPPED' in r.out:
            viol('%s/error-trap-survives' % cls, 'ERROR 77 in line 2000 was trapped by the old ON ERROR GOTO: %r' % (
                r.out[:60],))
            return
        if (r.err, r.erl) != (77, 2000) and r.err != -1:
            viol('%s/error-trap-observation' % cls, 'GOTO 2000 gave %r err %r erl %r' % (r.out[:60], r.err, r.erl))


def run_reset_case(part, builders, ri):
    label, rcls, where, stmt = RESETS[ri][:4]
    okerr = RESETS[ri][4] if len(RESETS[ri]) > 4 else None
    case = {'builders': list(builders), 'reset': ri}
    stop = 'STOP' if where == 'direct' else stmt
    c = Case()
    try:
        def viol(key, what):
            part.violation(key, '%s after builders %s: %s' % (label, '+'.join(builders) or '-', what), case)
        c.enter(_program(builders, stop))
        r = c.run('RUN 20')
        if r.exc is not None:
            viol('build/host-exception/%s' % H.exc_key(r.exc), repr(r.exc))
            return 'exc'
        if where == 'direct':
            if r.err is not None or b'Break in' not in r.out:
                raise CheckError('builder program did not stop as planned: %r (%r)' % (r, builders))
            r = c.run(stmt)
            if r.exc is not None:
                viol('%s/host-exception/%s' % (rcls, H.exc_key(r.exc)), repr(r.exc))
                return 'exc'
            if r.err != okerr:
                viol('%s/reset-statement-error-%s' % (rcls, r.err), '%r gave error %r, expected %r' % (stmt, r.err, okerr))
                return 'err'
        else:
            if r.err != okerr or (okerr is not None and r.out.count(b'TRAPPED') > (1 if 'eh' in builders else 0)):
                viol('%s/reset-statement-error-%s' % (rcls, r.err), '%r in program gave error %r (%r), expected %r untrapped' % (
                    stmt, r.err, r.out[:60], okerr))
                return 'err'
        has_program = rcls != 'new'
        _observe_reset(c, rcls, viol, has_program, builders)
        # the session is used again: after another CLEAR an explicit OPTION BASE 1 outlives the ERASE of the last array
        # (the observation above has dimensioned an array implicitly; nothing of that may be remembered)
        for st, want in (('ON ERROR GOTO 0:CLEAR', None), ('OPTION BASE 1', None), ('DIM PB%(2)', None), ('ERASE PB%', None), ('PB%(0)=7', 9)):
            r = c.run(st)
            if r.exc is not None:
                viol('%s/host-exception/%s' % (rcls, H.exc_key(r.exc)), '%r: %r' % (st, r.exc))
                break
            if r.err != want:
                viol('%s/reuse-after-clear/option-base' % rcls, 'in the session used again after the reset and a CLEAR, %r gives error %r, expected %r' % (st, r.err, want))
                break
        return 'ok'
    finally:
        c.done()


def work_reset(shard):
    part = Partial()
    for builders, ri in shard:
        oc = run_reset_case(part, builders, ri)
        part.n += 1
        part.traces += 1
        part.outcome(oc)
        part.classes.add('%s|n%d' % (RESETS[ri][0], len(builders)))
        for b in builders:
            part.classes.add('%s|%s' % (RESETS[ri][1], b))
    part.sample({'builders': list(shard[0][0]), 'reset': RESETS[shard[0][1]][0]})
    return part


# ---------------------------------------------------------------------------
# CHAIN

COMMON_UNIVERSE = ['A!', 'B$', 'C%()', 'D$()']


def _common_lists():
    out = []
    for k in range(5):
        for sub in combinations(COMMON_UNIVERSE, k):
            out.append(list(sub))
    out.append(['A!', 'I%', 'D#', 'B$', 'L$', 'C%()', 'D$()', 'A!()'])
    out.append(['L$'])
    out.append(['D#', 'I%', 'A!()'])
    # a scalar and an array of the same name in one COMMON statement, in both orders
    out.append(['A!', 'A!()'])
    out.append(['A!()', 'A!'])
    # ... and in two COMMON statements; a longer list spread over two statements with a name given twice
    out.append(['A!', '/', 'A!()'])
    out.append(['A!()', '/', 'A!'])
    out.append(['B$', 'A!', '/', 'C%()', 'B$', 'D$()'])
    return out


COMMONS = _common_lists()      # 24
# for the longest histories (thorough): none, each single name, all four, all eight
REDUCED_COMMONS = [i for i, c in enumerate(COMMONS) if len(c) in (0, 1, 8) or c == COMMON_UNIVERSE]

CHAINS = [
    ('CHAIN', 'chain', 'CHAIN "NEXT"', False, False),
    ('CHAIN ,line', 'chain', 'CHAIN "NEXT",1000', False, False),
    ('CHAIN ALL', 'chain-all', 'CHAIN "NEXT",,ALL', True, False),
    ('CHAIN MERGE', 'chain-merge', 'CHAIN MERGE "OVL",1000', False, True),
    ('CHAIN MERGE DELETE', 'chain-merge', 'CHAIN MERGE "OVL",1000,DELETE 12-12', False, True),
    ('CHAIN MERGE ALL', 'chain-merge-all', 'CHAIN MERGE "OVL",1000,ALL', True, True),
]
CHAIN_FILES = {'NEXT.BAS': b'10 END\r\n1000 END\r\n\x1a', 'OVL.BAS': b'1000 END\r\n\x1a'}


def run_chain_case(part, order, ci, chi, base, tight, extras):
    label, ccls, stmt, allflag, merge = CHAINS[chi]
    common = COMMONS[ci]
    case = {'order': list(order), 'common': ci, 'chain': chi, 'base': base, 'tight': tight, 'extras': extras}
    builders = list(order) + (['ob'] if base else []) + (['fn', 'dt'] if extras else [])
    c = Case(CHAIN_FILES)
    try:
        def viol(key, what):
            part.violation(key, '%s, COMMON %s, after %s%s%s: %s' % (
                label, ','.join(common) or '(none)', '; '.join(VAROPS[o] for o in order) or '(nothing)',
                ', OPTION BASE 1' if base else '', ', tight memory (%d bytes free)' % tight if tight else '', what), case)
        c.enter(_program(builders, stmt, common=common, order=list(order)))
        if tight:
            r = c.run('PRINT FRE(0)')
            free = int(r.out.strip())
            r = c.run('CLEAR ,%d' % (65534 - free + tight))
            if r.err is not None or r.exc is not None:
                raise CheckError('CLEAR for tight memory failed: %r' % r)
        r = c.run('RUN 20')
        if r.exc is not None:
            viol('%s/host-exception/%s' % (ccls, H.exc_key(r.exc)), repr(r.exc))
            return 'exc'
        if r.err is not None:
            if r.err in (7, 14) and tight:
                if r.erl != 620:
                    return 'oom%d-while-building' % r.err
                # CHAIN itself was refused for lack of memory: the variables are either all as they were (refused before
                # anything was cleared) or all gone (refused after the old program's variables were dropped)
                model = _new_model()
                for op in order:
                    _apply_varop(model, op, base)
                first = []
                for label2, expect in (('kept', model), ('cleared', _new_model())):
                    found = []
                    c.run('ON ERROR GOTO 0')
                    ok = _observe_vars(c, expect, ccls + '-refused', lambda k, w: found.append((k, w)))
                    if ok and not found:
                        return 'oom%d-in-chain-variables-%s' % (r.err, label2)
                    first = first or found
                for k, w in first[:1]:
                    viol(k, 'CHAIN refused with error %d, then (variables expected untouched): %s' % (r.err, w))
                return 'viol'
            viol('%s/error-%s-in-line-%s' % (ccls, r.err, r.erl), 'program failed: %r' % (r.out[:80],))
            return 'err'
        model = _new_model()
        for op in order:
            _apply_varop(model, op, base)
        if allflag:
            expect = model
        else:
            expect = _new_model()
            for name in common:
                if name == '/':
                    continue
                if name.endswith('()'):
                    if name[:-2] in model['ar']:
                        expect['ar'][name[:-2]] = model['ar'][name[:-2]]
                elif name in model['sc']:
                    expect['sc'][name] = model['sc'][name]
        if not _observe_vars(c, expect, ccls, viol):
            return 'viol'
        if not _observe_arrays_dim(c, expect, ccls, viol):
            return 'viol'
        if extras and ccls == 'chain':
            _observe_fn_deftype(c, ccls, viol)
        return 'ok'
    finally:
        c.done()


def work_chain(shard):
    part = Partial()
    for order, ci, chi, base, tight, extras in shard:
        oc = run_chain_case(part, order, ci, chi, base, tight, extras)
        part.n += 1
        part.traces += 1
        part.outcome(oc)
        part.classes.add('%s|n%d|c%d|%s%s%s|%s' % (
            CHAINS[chi][0], len(order), min(len(COMMONS[ci]), 2), 'b1' if base else 'b0', 't%d' % tight if tight else '',
            'x' if extras else '', oc[:3]))
    o = shard[0]
    part.sample({'ops': [VAROPS[x] for x in o[0]], 'common': COMMONS[o[1]], 'chain': CHAINS[o[2]][0]})
    return part


# ---------------------------------------------------------------------------

def _subsets(items, k):
    for n in range(k + 1):
        for sub in combinations(items, n):
            yield sub


def legs(ctx):
    out = []
    k = 3 if ctx.quick else 4
    cases = []
    for sub in _subsets(BUILDERS, k):
        if 'sB' in sub and 'sH' in sub and False:
            continue
        for ri in range(len(RESETS)):
            cases.append((sub, ri))
    out.append(Leg('reset', list(chunked(cases, 40 if ctx.quick else 120)), work_reset, exhaustive=True,
                   bound='all %d subsets of <=%d of %d state builders x %d reset forms (fresh session each)' % (
                       len(cases) // len(RESETS), k, len(BUILDERS), len(RESETS))))
    d = 2 if ctx.quick else 3
    orders = []
    for n in range(d + 1):
        orders.extend(permutations(CHAIN_VARORDER, n))
    ccases = []
    for order in orders:
        for ci in range(len(COMMONS)):
            if ctx.quick:
                combos = [(0, 0, 0, 0), (2, 0, 0, 0), (3, 1, 0, 0), (4, 0, 600, 0), (0, 1, 330, 0), (0, 0, 150, 0), (2, 0, 150, 0)]
                if len(order) <= 1:
                    combos += [(1, 0, 0, 1), (5, 0, 600, 0), (0, 0, 0, 1), (2, 0, 0, 1), (5, 0, 0, 1)]
            else:
                combos = [(chi, base, 0, 0) for chi in range(len(CHAINS)) for base in (0, 1)]
                combos += [(chi, 0, 600, 0) for chi in range(len(CHAINS))]
                combos += [(0, 0, 330, 0), (3, 0, 330, 0), (4, 1, 600, 0)]
                combos += [(chi, 0, 150, 0) for chi in range(len(CHAINS))] + [(0, 1, 150, 0), (2, 0, 60, 0), (0, 0, 60, 0)]
                if len(order) <= 1:
                    combos += [(chi, 0, 0, 1) for chi in range(len(CHAINS))]
            for chi, base, tight, extras in combos:
                ccases.append((order, ci, chi, base, tight, extras))
    out.append(Leg('chain', list(chunked(ccases, 60 if ctx.quick else 200)), work_chain, exhaustive=True,
                   bound='all %d ordered histories of <=%d of %d variable operations x %d COMMON lists x %s' % (
                       len(orders), d, len(CHAIN_VARORDER), len(COMMONS),
                       '7-10 (CHAIN form, OPTION BASE, memory normal/600/330/150 bytes free) combinations' if ctx.quick else
                       '30 (CHAIN form, OPTION BASE, memory normal/600/330/150/60 bytes free) combinations (+ DEF FN/'
                       'DEFtype extras for histories <=1') + '; %d cases' % len(ccases)))
    return out


def replay(ctx, leg, case):
    part = Partial()
    if leg == 'reset':
        run_reset_case(part, tuple(case['builders']), case['reset'])
    else:
        run_chain_case(part, tuple(case['order']), case['common'], case['chain'], case['base'],
                       case['tight'], case['extras'])
    part.n = 1
    return part
