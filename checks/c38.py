"""
C38 - event traps fire only when enabled and never re-enter.

E3 (deviation-bounded schedule exploration, CHESS style): for every program of a bounded
family (two traps + ON ERROR; main = all sequences of trap commands / ERROR / nop up to a
length; handler bodies from a small alphabet; one statement per line) the interpreter is
run under a scripted input queue.  Every poll of the interpreter (one per statement
boundary) is a choice point whose default answer is "nothing happened"; a deviation
is an event occurrence (F1/F2 key, clock jump for TIMER, pen down, joystick trigger) placed
at that poll.  ALL placements of up to k deviations over all polls of the run are explored
(0, then 1, then 2, ... deviations; runs extend depth-first over the polls actually
observed).  The observed sequence (poll, executed line) is checked by the reference model
models/traps.py, which accepts exactly the behaviours the statement allows.

A second leg (TLC) model-checks the abstract trap machine tla/Traps.tla and replays every
path of its state graph up to a depth against the real BasicEvents / Interpreter objects.
"""
import os
import itertools

from mc.core import Leg, Partial, CheckError, chunked
from mc import harness as H
from models import traps as M

from pcbasic.basic.base import signals, scancode

PROPERTY = 'C38'
ENGINE = 'E3 sched'
LEVEL = 'model_checking'
LEVEL_TEXT = (
    'Stateless deviation-bounded exploration of the real interpreter: every placement of up to k event '
    'occurrences over all statement-boundary polls of every program of a bounded trap-program family, '
    'each run checked against a nondeterministic reference model of the statement; plus TLC exhaustive '
    'checking of an abstract trap machine whose graph paths are replayed on the real event objects.')
LEVEL_NOTE = ('Polls are owned through a scripted input queue, executed lines through the documented step hook; '
              'one statement per line so that (poll, line) pairs are exact. COM and PLAY traps are not driven '
              '(they poll device state, not input signals).')
TECHNIQUE = ('deviation-bounded exhaustive schedule exploration (event placement at interpreter poll points) on the '
             'real interpreter with a reference trap monitor; TLC model of the trap machine with trace replay')
RULE = ('programs: all main sequences up to length n over the command alphabet x handler bodies; schedules: all '
        'placements of <= k occurrences over the polls of each run; class = (violation-free outcome signature: '
        'number of handler entries per trap, error handler entered, deviations)')
ASSUMPTIONS = [
    'unspecified cases accepted either way: see models/traps.py U1-U5',
    'dispatch order among simultaneously triggered traps is unspecified (any order accepted)',
    'a dispatchable occurrence may stay unhandled for at most 2 statement boundaries (the statement gives no timing)',
    'internal seam: interpreter.step hook, impl.queues.inputs, clock.datetime (virtual clock)',
]

# ---------------------------------------------------------------------------------------
# program family

KINDS = {
    # name: (ON-GOSUB clause, command prefix, latch_off)
    'K1': ('KEY(1)', 'KEY(1)', False),
    'K2': ('KEY(2)', 'KEY(2)', False),
    'K11': ('KEY(11)', 'KEY(11)', False),     # cursor-up key: handled before function keys
    # a user-defined trap key that also produces a printable character (the space bar)
    'K15': ('KEY(15)', 'KEY(15)', False, b'KEY 15,CHR$(0)+CHR$(57)'),
    'TM': ('TIMER(1)', 'TIMER', True),
    'PN': ('PEN', 'PEN', False),
    'ST': ('STRIG(0)', 'STRIG(0)', False),
}

FAMILIES = {
    'keys': ('K1', 'K2'),
    'timer-pen': ('TM', 'PN'),
    'strig-key': ('ST', 'K11'),
    'userkey': ('K15', 'K1'),
}

MAIN_ALPHA = ('A:ON', 'A:OFF', 'A:STOP', 'B:ON', 'B:OFF', 'B:STOP', 'ERR', 'NOP')
BODY_ALPHA = ('NOP', 'A:ON', 'A:OFF', 'A:STOP', 'B:ON', 'B:STOP', 'ERR')


def _stmt(tok, fam):
    a, b = FAMILIES[fam]
    if tok == 'NOP':
        return b'X=X', ('nop',)
    if tok == 'ERR':
        return b'ERROR 5', ('error',)
    who, cmd = tok.split(':')
    kind = a if who == 'A' else b
    return ('%s %s' % (KINDS[kind][1], cmd)).encode(), ('cmd', who, cmd)


def build_program(fam, main, body_a, body_b):
    """-> (list of BASIC lines, models.traps.Program)"""
    a, b = FAMILIES[fam]
    text = []
    ops = {}

    def add(n, src, op):
        text.append(b'%d %s' % (n, src))
        ops[n] = op

    n = 5
    for k in (a, b):
        if len(KINDS[k]) > 3:
            add(n, KINDS[k][3], ('nop',))
            n += 1
    add(10, ('ON %s GOSUB 100' % KINDS[a][0]).encode(), ('def', 'A', 100))
    add(11, ('ON %s GOSUB 200' % KINDS[b][0]).encode(), ('def', 'B', 200))
    add(12, b'ON ERROR GOTO 300', ('onerror', 300))
    n = 20
    for tok in main:
        src, op = _stmt(tok, fam)
        add(n, src, op)
        n += 1
    # runway: boundaries after the last command so that an unhandled occurrence can be told
    # from one that is still to be handled (the model allows SLACK boundaries of delay)
    for n in range(80, 80 + M.SLACK + 1):
        add(n, b'Z=Z', ('nop',))
    add(90, b'END', ('end',))
    n = 100
    for tok in body_a:
        src, op = _stmt(tok, fam)
        add(n, src, op)
        n += 1
    add(n, b'RETURN', ('return',))
    n = 200
    for tok in body_b:
        src, op = _stmt(tok, fam)
        add(n, src, op)
        n += 1
    add(n, b'RETURN', ('return',))
    add(300, b'Y=Y', ('nop',))
    add(301, b'RESUME NEXT', ('resume_next',))
    latch = [w for w, k in (('A', a), ('B', b)) if KINDS[k][2]]
    return text, M.Program(ops, {'A': 100, 'B': 200}, latch_off=latch)


def programs(fam, max_main, bodies_a, bodies_b):
    for n in range(1, max_main + 1):
        for main in itertools.product(MAIN_ALPHA, repeat=n):
            # a program without any ON can never dispatch; keep a few as controls only
            for ba in bodies_a:
                for bb in bodies_b:
                    yield (fam, main, ba, bb)


# ---------------------------------------------------------------------------------------
# running one (program, schedule)

class Runner(object):
    """Holds one Session; programs are entered with NEW + lines, schedules run with RUN."""

    def __init__(self):
        self.clock = H.VirtualClock().install()
        self.s = H.new_session(horizon=400, at_horizon='raise')
        self.trace = []
        self.s.verif_inputs.trace = self.trace
        self.s._impl.interpreter.step = self._step
        self.current = None
        self.runs = 0

    def _step(self, token):
        b = bytes(token)
        self.trace.append(('line', b[2] + 256 * b[3]))

    def load(self, progkey):
        if self.current == progkey:
            return
        fam, main, ba, bb = progkey
        text, model = build_program(fam, main, ba, bb)
        r = H.run(self.s, b'NEW')
        for l in text:
            r = H.run(self.s, l)
            if r.exc is not None or r.err is not None:
                raise CheckError('cannot enter %r: %r' % (l, r))
        self.current = progkey
        self.model = model
        self.fam = fam

    def _event(self, who):
        kind = FAMILIES[self.fam][0 if who == 'A' else 1]
        if kind == 'K1':
            return signals.Event(signals.KEYB_DOWN, (u'\0\x3b', scancode.F1, []))
        if kind == 'K2':
            return signals.Event(signals.KEYB_DOWN, (u'\0\x3c', scancode.F2, []))
        if kind == 'K15':
            return signals.Event(signals.KEYB_DOWN, (u' ', scancode.SPACE, []))
        if kind == 'K11':
            return signals.Event(signals.KEYB_DOWN, (u'\0\x48', scancode.UP, []))
        if kind == 'PN':
            return signals.Event(signals.PEN_DOWN, (10, 10))
        if kind == 'ST':
            return signals.Event(signals.STICK_DOWN, (0, 0))
        if kind == 'TM':
            clock = self.clock
            return lambda: clock.advance(1.5)
        raise CheckError('unknown kind')

    def run(self, schedule):
        """schedule: tuple of (poll, 'A'|'B'), polls counted from the RUN statement's poll = 0.
        Returns (iterations, npolls, Run)."""
        inp = self.s.verif_inputs
        sched = {}
        for poll, who in schedule:
            sched.setdefault(poll, []).append(self._event(who))
        inp.schedule = sched
        inp.polls = 0
        inp._pending = list(sched.get(0, ()))
        inp._closed = False
        del self.trace[:]
        self.clock.now_value = self.clock.now_value.replace(hour=5, minute=0, second=0, microsecond=0)
        r = H.run(self.s, b'RUN', reset_polls=False)
        self.runs += 1
        occ_at = {}
        for poll, who in schedule:
            occ_at.setdefault(poll, []).append(who)
        iterations = []
        npolls = 0
        last_poll = None
        for ev in self.trace:
            if ev[0] == 'poll':
                last_poll = ev[1]
                npolls = ev[1] + 1
            else:
                iterations.append((last_poll, tuple(occ_at.get(last_poll, ())), ev[1]))
        # drain keys that went to the keyboard buffer, reset pen/strig latches
        inp.schedule = {}
        H.run(self.s, b'WHILE INKEY$<>"":WEND:X=PEN(0):X=STRIG(1)', reset_polls=True)
        return iterations, npolls, r


def check_run(runner, progkey, schedule, part):
    runner.load(progkey)
    try:
        iterations, npolls, r = runner.run(schedule)
    except H.Horizon:
        part.violation('sched/no-termination', 'program %r schedule %r exceeded the poll horizon' % (progkey, schedule),
                       {'program': list(progkey), 'schedule': [list(x) for x in schedule]})
        # the session is in an unknown state
        runner.__init__()
        return 0
    part.n += 1
    part.traces += 1
    case = {'program': [progkey[0], list(progkey[1]), list(progkey[2]), list(progkey[3])],
            'schedule': [list(x) for x in schedule]}
    if r.exc is not None:
        part.violation('sched/host-exception/' + H.exc_key(r.exc), repr(r.exc), case)
        return npolls
    # polls must line up: every occurrence must have been placed at a poll that happened
    its = [(occ, line) for (_p, occ, line) in iterations]
    # occurrences at polls not followed by a line (RUN's own poll 0, final poll) are dropped by the
    # schedule generator; assert
    placed = sum(len(o) for o, _ in its)
    if placed != len(schedule):
        # an occurrence fell on a poll without a following statement: not part of the space
        part.add('schedules_skipped_no_boundary')
        return npolls
    res = M.monitor(runner.model, its)
    entries = sum(1 for (_o, l) in its if l in (100, 200))
    part.classes.add('%s/dev%d/entries%d/%s' % (progkey[0], len(schedule), min(entries, 4),
                                               'err' if any(l == 300 for _o, l in its) else 'noerr'))
    part.outcome('entries=%d' % entries)
    if res is not None:
        idx, reason, detail = res
        part.violation(
            'sched/%s/%s' % (progkey[0], reason),
            'program main=%r bodyA=%r bodyB=%r schedule=%r: at iteration %d (%r): %s; trace=%r' % (
                progkey[1], progkey[2], progkey[3], schedule, idx, detail, reason,
                [(o, l) for o, l in its]),
            case)
    return npolls


POLL_CAP = 48


def explore_program(runner, progkey, max_dev, part):
    """All placements of <= max_dev occurrences over the polls of each run (iterative deepening
    by construction: a schedule with d deviations is extended only at later polls)."""
    stack = [()]
    while stack:
        sched = stack.pop()
        npolls = check_run(runner, progkey, sched, part)
        part.extra['max_polls_of_a_run'] = max(part.extra.get('max_polls_of_a_run', 0), npolls)
        if len(sched) >= max_dev:
            continue
        if npolls > POLL_CAP:
            # a run this long (a handler that keeps re-entering) would make the number of placements
            # explode: occurrences are placed in its first POLL_CAP polls only, and the cap is reported
            part.extra['runs_longer_than_poll_cap'] = part.extra.get('runs_longer_than_poll_cap', 0) + 1
            npolls = POLL_CAP
        start = sched[-1] if sched else (0, 'B')    # poll 0 is RUN's own poll (direct mode)
        for poll in range(start[0], npolls - 1):    # the final poll has no following statement
            for who in ('A', 'B'):
                if (poll, who) <= start:
                    continue
                stack.append(sched + ((poll, who),))


def work_sched(shard):
    max_dev, progs = shard
    part = Partial()
    runner = Runner()
    try:
        for i, progkey in enumerate(progs):
            progkey = (progkey[0], tuple(progkey[1]), tuple(progkey[2]), tuple(progkey[3]))
            explore_program(runner, progkey, max_dev, part)
            if i == 0:
                part.sample({'program': build_program(*progkey)[0], 'max_deviations': max_dev})
    finally:
        runner.clock.uninstall()
    part.states = 0
    part.add('runs', runner.runs)
    return part


# ---------------------------------------------------------------------------------------
# direct mode: no handler runs when no program is running (S1)

def work_direct(shard):
    part = Partial()
    runner = Runner()
    try:
        for fam in FAMILIES:
            for cmdseq in (('A:ON',), ('A:ON', 'B:ON'), ('A:ON', 'A:STOP'), ('B:ON', 'ERR')):
                progkey = (fam, cmdseq, ('NOP',), ('NOP',))
                runner.load(progkey)
                runner.run(())
                s = runner.s
                # after END: direct-mode statements with occurrences at every poll
                for k in range(0, 4):
                    for who in ('A', 'B'):
                        del runner.trace[:]
                        inp = s.verif_inputs
                        inp.schedule = {k: [runner._event(who)]}
                        inp.polls = 0
                        inp._pending = list(inp.schedule.get(0, ()))
                        r = H.run(s, b'X=1:Y=2:Z=3', reset_polls=False)
                        part.n += 1
                        part.traces += 1
                        lines = [e for e in runner.trace if e[0] == 'line']
                        part.classes.add('direct/%s/%s' % (fam, who))
                        if lines or r.exc is not None:
                            part.violation(
                                'direct/handler-ran-in-direct-mode',
                                'after %r ended, occurrence of %s at direct poll %d executed lines %r (%r)' % (
                                    cmdseq, who, k, lines, r),
                                {'fam': fam, 'cmdseq': list(cmdseq), 'poll': k, 'who': who})
                        inp.schedule = {}
                        H.run(s, b'WHILE INKEY$<>"":WEND')
    finally:
        runner.clock.uninstall()
    return part


# ---------------------------------------------------------------------------------------

def _shards(fam, max_main, bodies_a, bodies_b, max_dev, size):
    progs = [list(p) for p in programs(fam, max_main, bodies_a, bodies_b)]
    return [(max_dev, chunk) for chunk in chunked(progs, size)]


def legs(ctx):
    out = []
    nop = ('NOP',)
    bodies1 = [(t,) for t in BODY_ALPHA]
    if ctx.quick:
        out.append(Leg('sched-keys-main2-dev2',
                       _shards('keys', 2, [nop, ('A:ON',), ('A:STOP',), ('ERR',)], [nop], 2, 12), work_sched,
                       exhaustive=True,
                       bound='family keys: main <= 2 over 8 commands x 4 bodies for handler A; all placements of <= 2 occurrences'))
        out.append(Leg('sched-keys-main3-dev1',
                       _shards('keys', 3, [nop, ('A:OFF',)], [nop], 1, 48), work_sched, exhaustive=True,
                       bound='family keys: main <= 3 x 2 bodies; all placements of <= 1 occurrence'))
        out.append(Leg('sched-others-main2-dev2',
                       _shards('timer-pen', 2, [nop], [nop], 2, 8)
                       + _shards('strig-key', 2, [nop], [nop], 2, 8)
                       + _shards('userkey', 2, [nop], [nop], 2, 8), work_sched, exhaustive=True,
                       bound='families timer-pen, strig-key, userkey: main <= 2, plain handlers; <= 2 occurrences'))
    else:
        # (main <= 3 x 14 handler bodies x 3 occurrences would be ~70 CPU hours: split into two legs)
        out.append(Leg('sched-keys-main2-dev3',
                       _shards('keys', 2, bodies1, [nop, ('B:STOP',)], 3, 4), work_sched, exhaustive=True,
                       bound='family keys: main <= 2 x 7 bodies A x 2 bodies B; all placements of <= 3 occurrences'))
        out.append(Leg('sched-keys-main3-dev3',
                       _shards('keys', 3, [nop], [nop], 3, 2), work_sched, exhaustive=True,
                       bound='family keys: main <= 3, plain handlers; all placements of <= 3 occurrences'))
        out.append(Leg('sched-keys-main4-dev2',
                       _shards('keys', 4, [nop, ('A:ON',), ('A:STOP',), ('ERR',)], [nop], 2, 16), work_sched,
                       exhaustive=True,
                       bound='family keys: main <= 4 x 4 bodies; all placements of <= 2 occurrences'))
        out.append(Leg('sched-others-main3-dev2',
                       _shards('timer-pen', 3, bodies1, [nop], 2, 16)
                       + _shards('strig-key', 3, bodies1, [nop], 2, 16)
                       + _shards('userkey', 3, bodies1, [nop], 2, 16), work_sched, exhaustive=True,
                       bound='families timer-pen, strig-key, userkey: main <= 3 x 7 bodies; <= 2 occurrences'))
    out.append(Leg('direct-mode', [0], work_direct, exhaustive=True,
                   bound='3 families x 4 ended programs x occurrences at each of 4 direct-mode polls'))
    return out


def replay(ctx, leg, case):
    part = Partial()
    if leg.startswith('sched'):
        runner = Runner()
        try:
            p = case['program']
            progkey = (p[0], tuple(p[1]), tuple(p[2]), tuple(p[3]))
            check_run(runner, progkey, tuple((a, b) for a, b in case['schedule']), part)
        finally:
            runner.clock.uninstall()
    elif leg == 'direct-mode':
        return work_direct(0)
    return part


# ---------------------------------------------------------------------------------------
# TLC leg: model-check tla/Traps.tla, replay graph paths on the real objects

import re
import shutil
import subprocess
import tempfile

TLA_DIR = os.path.join(os.path.dirname(os.path.dirname(os.path.abspath(__file__))), 'tla')


def run_tlc(cfg):
    """-> (nodes: id -> state dict, edges: id -> list of (label, id), init id, stats)"""
    tmp = tempfile.mkdtemp(prefix='tlc_', dir=H.SCRATCH_BASE)
    try:
        for f in ('Traps.tla', cfg):
            shutil.copy(os.path.join(TLA_DIR, f), tmp)
        cmd = ['tlc', '-workers', '4', '-noGenerateSpecTE', '-metadir', os.path.join(tmp, 'meta'),
               '-config', cfg, '-dump', 'dot,actionlabels', os.path.join(tmp, 'graph'), 'Traps.tla']
        p = subprocess.run(cmd, cwd=tmp, stdout=subprocess.PIPE, stderr=subprocess.STDOUT, timeout=1800)
        out = p.stdout.decode('utf8', 'replace')
        if 'Model checking completed. No error has been found.' not in out:
            if 'is violated' in out or 'Error:' in out:
                return None, None, None, {'tlc_output': out[-3000:], 'tlc_error': True}
            raise CheckError('TLC did not complete:\n' + out[-2000:])
        m = re.search(r'(\d+) states generated, (\d+) distinct states found', out)
        stats = {'tlc_states_generated': int(m.group(1)), 'tlc_distinct_states': int(m.group(2))}
        m = re.search(r'depth of the complete state graph search is (\d+)', out)
        stats['tlc_depth'] = int(m.group(1)) if m else -1
        with open(os.path.join(tmp, 'graph.dot')) as f:
            dot = f.read()
    finally:
        shutil.rmtree(tmp, ignore_errors=True)
    nodes, edges = {}, {}
    init = None
    node_re = re.compile(r'^(-?\d+) \[label="(.*?)"(,style = filled)?')
    edge_re = re.compile(r'^(-?\d+) -> (-?\d+) \[label="(.*?)"')
    for line in dot.split('\n'):
        m = edge_re.match(line)
        if m:
            edges.setdefault(m.group(1), []).append((m.group(3), m.group(2)))
            continue
        m = node_re.match(line)
        if m:
            nodes[m.group(1)] = _parse_state(m.group(2))
            if m.group(3):
                init = m.group(1)
    if init is None or not nodes:
        raise CheckError('cannot parse TLC graph')
    for k in edges:
        edges[k] = sorted(set(edges[k]))
    return nodes, edges, init, stats


def _parse_val(v):
    v = v.strip()
    if v == 'TRUE':
        return True
    if v == 'FALSE':
        return False
    if v.startswith('<<'):
        inner = v[2:-2].strip()
        return tuple(_parse_val(x) for x in inner.split(',')) if inner else ()
    return int(v)


def _parse_state(label):
    st = {}
    for part in label.split('\\n'):
        part = part.strip()
        if part.startswith('/\\\\'):
            part = part[3:]
        elif part.startswith('/\\'):
            part = part[2:]
        name, val = part.split('=', 1)
        st[name.strip()] = _parse_val(val)
    return st


SEAM_PROGRAM = [
    b'10 ON KEY(1) GOSUB 100:ON KEY(2) GOSUB 200:ON ERROR GOTO 300:STOP',
    b'20 X=X', b'30 X=X', b'100 RETURN', b'200 RETURN', b'300 RESUME NEXT',
]


class SeamRunner(object):
    """Real BasicEvents/Interpreter/EventQueues objects driven one call per model action."""

    def __init__(self):
        from pcbasic.basic.base import error as E, tokens as tk
        self.E, self.tk = E, tk
        self.s = H.new_session(horizon=200, at_horizon='raise')
        for l in SEAM_PROGRAM:
            r = H.run(self.s, l)
            if r.exc is not None or r.err is not None:
                raise CheckError('seam program: %r' % (r,))
        self.impl = self.s._impl
        self.n = 0

    def reset(self):
        """RUN re-initialises all trap state through BASIC itself (to the STOP in line 10),
        then the program is made 'running' again the way CONT does."""
        # LOCATE first: the 'Break in 10' message must not scroll the screen (10 ms per scroll)
        r = H.run(self.s, b'LOCATE 1,1:RUN')
        if r.exc is not None or b'Break in 10' not in r.out:
            raise CheckError('seam reset: %r' % (r,))
        it = self.impl.interpreter
        it.set_pointer(True, it.stop_pos)
        self.h = {1: self.impl.basic_events.key[0], 2: self.impl.basic_events.key[1]}
        self.n += 1

    def real_state(self):
        be = self.impl.basic_events
        it = self.impl.interpreter
        return {
            'en': tuple(self.h[i] in be.enabled for i in (1, 2)),
            'stp': tuple(bool(self.h[i].stopped) for i in (1, 2)),
            'trig': tuple(bool(self.h[i].triggered) for i in (1, 2)),
            'errmode': bool(be.suspend_all),
            'stack': tuple(1 if fr[2] is self.h[1] else 2 if fr[2] is self.h[2] else 0
                           for fr in it.gosub_stack),
            'running': bool(it.run_mode),
        }

    def apply(self, label):
        tk, E = self.tk, self.E
        be, it, q = self.impl.basic_events, self.impl.interpreter, self.impl.queues
        m = re.match(r'(\w+?)(\d*)(?:\((\d)\))?$', label)
        name, suffix, arg = m.group(1), m.group(2), m.group(3)
        if name in ('On', 'Off', 'Stop'):
            be.command(self.h[int(arg)], {'On': tk.ON, 'Off': tk.OFF, 'Stop': tk.STOP}[name])
        elif name == 'Occur':
            i = int(arg)
            # what Interpreter.parse does at the top of every iteration
            q.set_basic_event_handlers(be.enabled)
            ev = signals.Event(signals.KEYB_DOWN, (u'\0\x3b', scancode.F1, [])) if i == 1 else \
                signals.Event(signals.KEYB_DOWN, (u'\0\x3c', scancode.F2, []))
            self.s.verif_inputs._pending.append(ev)
            q.check_events()
        elif name == 'Dispatch':
            it.handle_basic_events()
        elif name == 'Return':
            it.return_([None])
        elif name == 'Error':
            it.trap_error(E.BASICError(E.IFC))
        elif name == 'Resume':
            it.resume_([None])
        elif name == 'End':
            it.set_pointer(False)
        else:
            raise CheckError('unknown model action %r' % label)
        return name, suffix


def _model_view(st):
    return {k: st[k] for k in ('en', 'stp', 'trig', 'errmode', 'stack', 'running')}


def _dispatchable(st):
    return tuple(i for i in (1, 2) if st['running'] and not st['errmode'] and st['en'][i - 1]
                 and st['trig'][i - 1] and not st['stp'][i - 1])


_GRAPH = {}


def replay_paths(shard):
    """shard = (cfg, list of paths); a path is a list of (label, target node id)."""
    cfg, paths = shard
    part = Partial()
    nodes = _GRAPH[cfg][0]
    runner = SeamRunner()
    for path in paths:
        runner.reset()
        part.n += 1
        part.traces += 1
        labels = [l for l, _ in path]
        case = {'cfg': cfg, 'path': labels}
        ok = True
        for k, (label, target) in enumerate(path):
            model = nodes[target]
            if label.startswith('Dispatch'):
                before = len(runner.impl.interpreter.gosub_stack)
            try:
                name, suffix = runner.apply(label)
            except CheckError:
                raise
            except Exception as e:
                part.violation('tlc/host-exception/%s' % H.exc_key(e), 'path %r step %d: %r' % (labels, k, e), case)
                ok = False
                break
            real = runner.real_state()
            want = _model_view(model)
            if name == 'Dispatch' and len(suffix) == 2 and real != want:
                # two traps entered at one boundary: the order is unspecified; accept the
                # other order and abandon this path (its sibling path covers that order)
                alt = dict(want)
                alt['stack'] = want['stack'][:-2] + (want['stack'][-1], want['stack'][-2])
                if real == alt:
                    part.add('paths_cut_at_unordered_dispatch')
                    ok = False
                    break
            if real != want:
                diff = sorted(k2 for k2 in want if real[k2] != want[k2])
                part.violation(
                    'tlc/state-mismatch/%s/%s' % (name, '+'.join(diff)),
                    'path %r: after step %d (%s) real %r model %r' % (labels, k, label, real, want), case)
                ok = False
                break
        if not ok:
            continue
        # probe: a statement boundary now enters exactly the traps the model says are dispatchable
        final = nodes[path[-1][1]] if path else nodes[_GRAPH[cfg][2]]
        if final['running'] and len(final['stack']) + 2 <= _GRAPH[cfg][3]:
            want = _dispatchable(final)
            before = len(runner.impl.interpreter.gosub_stack)
            runner.impl.interpreter.handle_basic_events()
            st = runner.real_state()['stack'][before:]
            part.classes.add('probe/%d' % len(want))
            if tuple(sorted(st)) != tuple(sorted(want)):
                part.violation(
                    'tlc/dispatch-mismatch/%s' % ('entered-not-allowed' if set(st) - set(want) else 'not-entered'),
                    'path %r: boundary entered handlers %r, model dispatchable %r (state %r)' % (
                        labels, st, want, final), case)
        part.classes.add('last/' + (labels[-1] if labels else 'init'))
    return part


def work_tlc(shard):
    cfg, depth = shard
    part = Partial()
    nodes, edges, init, stats = run_tlc(cfg)
    if nodes is None:
        part.violation('tlc/model-invariant-violated', stats['tlc_output'][-1500:], {'cfg': cfg})
        return part
    maxstack = int(re.search(r'MaxStack = (\d+)', open(os.path.join(TLA_DIR, cfg)).read()).group(1))
    _GRAPH[cfg] = (nodes, edges, init, maxstack)
    # (a) every path up to `depth`
    paths = []

    def dfs(node, path):
        if path:
            paths.append(list(path))
        if len(path) >= depth:
            return
        for label, tgt in edges.get(node, ()):
            path.append((label, tgt))
            dfs(tgt, path)
            path.pop()
    dfs(init, [])
    n_depth_paths = len(paths)
    # (b) every edge of the full graph: shortest path to its source + the edge
    from collections import deque
    parent = {init: None}
    dq = deque([init])
    while dq:
        u = dq.popleft()
        for label, v in edges.get(u, ()):
            if v not in parent:
                parent[v] = (u, label)
                dq.append(v)

    def path_to(v):
        p = []
        while parent[v] is not None:
            u, label = parent[v]
            p.append((label, v))
            v = u
        p.reverse()
        return p
    nedges = 0
    for u in sorted(edges):
        if u not in parent:
            continue
        base = path_to(u)
        if len(base) < depth:
            nedges += len(edges[u])
            continue    # already covered by (a)
        for label, v in edges[u]:
            paths.append(base + [(label, v)])
            nedges += 1
    part.states = len(nodes)
    part.transitions = sum(len(v) for v in edges.values())
    for k, v in stats.items():
        part.add(k, v)
    part.add('paths_all_up_to_depth', n_depth_paths)
    part.add('paths_edge_cover', len(paths) - n_depth_paths)
    part.add('replay_depth', depth)
    # replay in parallel (fork pool inherits _GRAPH)
    from mc import core
    chunks = [(cfg, c) for c in chunked(paths, max(50, len(paths) // 256))]
    if core.NCPU > 1 and core._POOL is None:
        results = core.pool().imap_unordered(core._call, [(replay_paths, c) for c in chunks])
    elif core.NCPU > 1:
        # pool was forked before _GRAPH existed: use a private pool
        import multiprocessing
        with multiprocessing.get_context('fork').Pool(core.NCPU) as p:
            results = list(p.imap_unordered(core._call, [(replay_paths, c) for c in chunks]))
    else:
        results = [replay_paths(c) for c in chunks]
    for r in results:
        part.n += r.n
        part.traces += r.traces
        part.classes |= r.classes
        for v in r.viol:
            part.violation(*v)
        for k, v in r.extra.items():
            part.add(k, v)
    part.sample({'cfg': cfg, 'path': [l for l, _ in paths[len(paths) // 2]]})
    return part


_legs_sched = legs


def legs(ctx):
    out = _legs_sched(ctx)
    if ctx.quick:
        out.append(Leg('tlc-replay', [('TrapsQuick.cfg', 4)], work_tlc, exhaustive=True, serial=True,
                       bound='TLC: all reachable states of Traps.tla (2 traps, stack <= 2); replay on the real '
                             'objects of every graph path up to depth 4 and of every edge (via a shortest path)'))
    else:
        out.append(Leg('tlc-replay', [('Traps.cfg', 5)], work_tlc, exhaustive=True, serial=True,
                       bound='TLC: all reachable states of Traps.tla (2 traps, stack <= 3); replay on the real '
                             'objects of every graph path up to depth 5 and of every edge (via a shortest path)'))
    return out


_replay_sched = replay


def replay(ctx, leg, case):
    if leg != 'tlc-replay':
        return _replay_sched(ctx, leg, case)
    cfg = case['cfg']
    nodes, edges, init, stats = run_tlc(cfg)
    maxstack = int(re.search(r'MaxStack = (\d+)', open(os.path.join(TLA_DIR, cfg)).read()).group(1))
    _GRAPH[cfg] = (nodes, edges, init, maxstack)
    path = []
    cur = init
    for label in case['path']:
        nxt = [t for l, t in edges.get(cur, ()) if l == label]
        if not nxt:
            raise CheckError('path not in graph')
        path.append((label, nxt[0]))
        cur = nxt[0]
    return replay_paths((cfg, [path]))
