"""
C02 - integer operators follow 16-bit two's-complement semantics.

E1 (domain enumeration on the real functions):
  unary   : NOT, negation, ABS over all 65536 patterns (exhaustive)
  binary  : \\ MOD AND OR XOR EQV IMP, Integer.iadd/isub/gt/eq over
            (ALL x B) u (B x ALL)  [thorough]  /  B x B  [quick]
            + full 2^32 for iadd (thorough)
  floatop : float operands just inside / outside the accepted ranges
  for     : FOR I%=a TO lim STEP s through Session.execute
Oracle: Python int arithmetic.
"""
import struct

from mc.core import Leg, Partial
from mc import num
from pcbasic.basic.values import values as V
from pcbasic.basic.values import numbers as N
from pcbasic.basic.base import error

PROPERTY = 'C02'
LEVEL = 'model_checking'
RULE = ('exhaustive product of fixed integer alphabets (ALL = 65536 patterns, B = boundary '
        'patterns) per operator; a case class is (operator, sign of a, sign of b, outcome kind); '
        'non-trivial = every class except (+,+,ok)')
ASSUMPTIONS = [
    'internal seam: values.intdiv/mod_/and_/or_/xor_/eqv_/imp_/not_/neg/abs_, Integer.iadd/isub/gt/eq',
    'float operands of bitwise operators in 32768..65535 raise Overflow as in GW-BASIC: known finding',
    'Integer.isub(x, -32768) raises Overflow even when x<0 (it negates the rhs first); no BASIC '
    'statement reaches Integer.isub (values.sub promotes to float), so this is accepted',
    '-32768 MOD -1: result 0 or Overflow both accepted (statement is ambiguous there)',
    'FOR ... STEP 0 is excluded here (not an addition question; see C19)',
]

OV = error.OVERFLOW
DZ = error.DIVISION_BY_ZERO


def _ref_intdiv(a, b):
    if b == 0:
        return ('err', DZ)
    q = abs(a) // abs(b)
    if (a < 0) != (b < 0):
        q = -q
    if not -32768 <= q <= 32767:
        return ('err', OV)
    return ('ok', q)


def _ref_mod(a, b):
    if b == 0:
        return ('err', DZ)
    q = abs(a) // abs(b)
    if (a < 0) != (b < 0):
        q = -q
    # the statement: MOD raises Overflow when the quotient leaves the range;
    # the only such pair is -32768 MOD -1 whose remainder 0 is representable.
    # Accept either there (see `ambiguous`).
    return ('ok', a - b * q)


def _u(a):
    return a & 0xffff


REF = {
    'intdiv': _ref_intdiv,
    'mod': _ref_mod,
    'and': lambda a, b: ('ok', num.s16(_u(a) & _u(b))),
    'or': lambda a, b: ('ok', num.s16(_u(a) | _u(b))),
    'xor': lambda a, b: ('ok', num.s16(_u(a) ^ _u(b))),
    'eqv': lambda a, b: ('ok', num.s16(~(_u(a) ^ _u(b)))),
    'imp': lambda a, b: ('ok', num.s16((~_u(a)) | _u(b))),
    'iadd': lambda a, b: ('ok', a + b) if -32768 <= a + b <= 32767 else ('err', OV),
    'isub': lambda a, b: ('ok', a - b) if -32768 <= a - b <= 32767 else ('err', OV),
    'gt': lambda a, b: ('ok', a > b),
    'eq': lambda a, b: ('ok', a == b),
}

IMPL = {
    'intdiv': lambda A, B: V.intdiv(A, B).to_int(),
    'mod': lambda A, B: V.mod_(A, B).to_int(),
    'and': lambda A, B: V.and_(A, B).to_int(),
    'or': lambda A, B: V.or_(A, B).to_int(),
    'xor': lambda A, B: V.xor_(A, B).to_int(),
    'eqv': lambda A, B: V.eqv_(A, B).to_int(),
    'imp': lambda A, B: V.imp_(A, B).to_int(),
    'iadd': lambda A, B: A.clone().iadd(B).to_int(),
    'isub': lambda A, B: A.clone().isub(B).to_int(),
    'gt': lambda A, B: bool(A.gt(B)),
    'eq': lambda A, B: bool(A.eq(B)),
}

# operators that return a new value object: the object is kept to see that later results do not disturb it
OBJ = {'intdiv': V.intdiv, 'mod': V.mod_, 'and': V.and_, 'or': V.or_, 'xor': V.xor_, 'eqv': V.eqv_, 'imp': V.imp_}
OPS = list(REF)
BASICError = error.BASICError


def _sg(x):
    return '-' if x < 0 else ('0' if x == 0 else '+')


def _binary_pairs(part, op, pairs_a, bset, both_orders):
    vals = num.make_values()
    A = N.Integer(None, vals)
    B = N.Integer(None, vals)
    abuf = A._buffer
    bbuf = B._buffer
    ref = REF[op]
    impl = IMPL[op]
    objfn = OBJ.get(op)
    prev = None
    inplace = {'iadd': lambda A, B: A.iadd(B), 'isub': lambda A, B: A.isub(B)}.get(op)
    pack = struct.pack_into
    unpack = struct.unpack_from
    classes = part.classes
    n = 0
    orders = (0, 1) if both_orders else (0,)
    for a in pairs_a:
        for b in bset:
            for o in orders:
                x, y = (a, b) if o == 0 else (b, a)
                pack('<h', abuf, 0, x)
                pack('<h', bbuf, 0, y)
                try:
                    if objfn is not None:
                        robj = objfn(A, B)
                        got = ('ok', robj.to_int())
                        if prev is not None and (prev[0] is robj or prev[0].to_int() != prev[1]):
                            part.violation('%s/earlier-result-changed' % op,
                                           'the result %d of the previous application reads %d after %d %s %d was computed%s' % (
                                               prev[1], prev[0].to_int(), x, op, y, ' (same object returned)' if prev[0] is robj else ''),
                                           {'op': op, 'a': x, 'b': y})
                        prev = (robj, got[1])
                    else:
                        got = ('ok', impl(A, B))
                except BASICError as e:
                    got = ('err', e.err)
                exp = ref(x, y)
                n += 1
                if unpack('<h', abuf)[0] != x or unpack('<h', bbuf)[0] != y:
                    # every operator here is used on clones or is a pure function of its operands
                    part.violation('%s/operand-modified' % op,
                                   '%d %s %d left its operands as %d, %d' % (
                                       x, op, y, unpack('<h', abuf)[0], unpack('<h', bbuf)[0]),
                                   {'op': op, 'a': x, 'b': y})
                if inplace is not None:
                    # the in-place form used by NEXT: the result lands in the left operand, and an
                    # operation that raises Overflow leaves it as it was (the statement can be retried)
                    try:
                        inplace(A, B)
                        gi = ('ok', unpack('<h', abuf)[0])
                    except BASICError as e:
                        gi = ('err', e.err, unpack('<h', abuf)[0])
                    ei = exp if exp[0] == 'ok' else (exp[0], exp[1], x)
                    if gi != ei and not (op == 'isub' and y == -32768):
                        part.violation('%s/in-place/%s' % (op, 'left-operand-changed-on-error' if gi[0] == 'err' and ei[0] == 'err' else 'wrong'),
                                       '%d %s %d in place: got %r expected %r' % (x, op, y, gi, ei), {'op': op, 'a': x, 'b': y})
                    if unpack('<h', bbuf)[0] != y:
                        part.violation('%s/operand-modified' % op, '%d %s %d in place changed its right operand to %d' % (
                            x, op, y, unpack('<h', bbuf)[0]), {'op': op, 'a': x, 'b': y})
                if got != exp:
                    if op == 'mod' and x == -32768 and y == -1 and got in (('ok', 0), ('err', OV)):
                        pass  # statement allows either (see _ref_mod)
                    elif op == 'isub' and y == -32768 and got == ('err', OV):
                        pass  # Integer.isub negates its rhs first; not reachable from BASIC (ASSUMPTIONS)
                    else:
                        part.violation(
                            '%s/%s' % (op, 'wrong-error' if 'err' in (got[0], exp[0]) else 'wrong-value'),
                            '%d %s %d: got %r expected %r' % (x, op, y, got, exp),
                            {'op': op, 'a': x, 'b': y})
                classes.add('%s%s%s%s' % (op, _sg(x), _sg(y), exp[0] if exp[0] == 'ok' else exp[1]))
    part.n += n
    return part


def work_binary(shard):
    op, a_lo, a_hi, mode = shard
    part = Partial()
    bset = [num.s16(u) for u in num.int_boundary_set(extra=(mode == 'thorough'))]
    if mode == 'quick':
        avals = bset[a_lo:a_hi]
        _binary_pairs(part, op, avals, bset, False)
    elif mode == 'quickall':
        core = [-32768, -32767, -16385, -16384, -257, -256, -255, -129, -128, -127, -2, -1, 0, 1, 2,
                127, 128, 255, 256, 257, 16383, 16384, 32766, 32767]
        _binary_pairs(part, op, range(a_lo, a_hi), core, True)
    elif mode == 'full':
        # full product for this slice of a
        _binary_pairs(part, op, range(a_lo, a_hi), range(-32768, 32768), False)
    else:
        _binary_pairs(part, op, range(a_lo, a_hi), bset, True)
    part.sample({'op': op, 'a_range': [a_lo, a_hi], 'mode': mode})
    part.traces = part.n
    return part


def work_unary(shard):
    lo, hi = shard
    part = Partial()
    vals = num.make_values()
    for a in range(lo, hi):
        A = num.mkint(vals, a)
        # NOT
        got = num.err_of(lambda: V.not_(A).to_int())
        exp = ('ok', num.s16(~a))
        if got != exp:
            part.violation('not/wrong', 'NOT %d: got %r expected %r' % (a, got, exp), {'op': 'not', 'a': a})
        # Integer.ineg in place
        got = num.err_of(lambda: A.clone().ineg().to_int())
        exp = ('ok', -a) if a != -32768 else ('err', OV)
        if got != exp:
            part.violation('ineg/wrong', 'ineg %d: got %r expected %r' % (a, got, exp), {'op': 'ineg', 'a': a})
        got = num.err_of(lambda: A.clone().iabs().to_int())
        exp = ('ok', abs(a)) if a != -32768 else ('err', OV)
        if got != exp:
            part.violation('iabs/wrong', 'iabs %d: got %r expected %r' % (a, got, exp), {'op': 'iabs', 'a': a})
        # values.neg promotes to float: value must be exactly -a
        r = V.neg(A)
        if num.mbf_to_fraction(r.to_bytes()) != -a:
            part.violation('neg/wrong', 'neg %d -> %r' % (a, r), {'op': 'neg', 'a': a})
        # sign / is_zero
        if A.sign() != (a > 0) - (a < 0):
            part.violation('sign/wrong', 'sign %d' % a, {'op': 'sign', 'a': a})
        part.n += 5
        part.classes.add('u%s' % _sg(a))
        if a == -32768:
            part.classes.add('u-min')
    part.sample({'unary_range': [lo, hi]})
    part.traces = part.n
    return part


# float operands: (value as python float literal text for from_repr, exact python number)
def _float_operands():
    # (exact value, expected integer after CINT or None for overflow)
    vals = []
    for x in (-32769.5, -32769.0, -32768.75, -32768.5, -32768.49, -32768.0, -32767.5, -1.5, -0.5,
              0.49, 0.5, 1.5, 2.5, 32766.5, 32767.0, 32767.49, 32767.5, 32768.0, 40000.0, 65535.0,
              65535.4, 65535.5, 65536.0, 1e10, -1e10, 1.7e38,
              # doubles closer to a half than a single can tell (the expected value follows the bytes actually stored)
              2.4999999999, -2.4999999999, 32767.4999999, -32768.4999999):
        vals.append(x)
    return vals


def _cint_ref(x):
    import math
    r = math.floor(abs(x) + 0.5)
    r = -r if x < 0 else r
    return r


def work_floatop(shard):
    part = Partial()
    vals = num.make_values()
    bset = [num.s16(u) for u in num.int_boundary_set()]
    fops = _float_operands()
    for cls in (N.Single, N.Double):
        for x in fops:
            F = cls(None, vals).from_value(x)
            exact = num.mbf_to_fraction(F.to_bytes())
            r = _cint_ref(exact)
            for op in ('intdiv', 'mod', 'and', 'or', 'xor', 'eqv', 'imp'):
                for b in bset:
                    for order in (0, 1):
                        Bv = num.mkint(vals, b)
                        l, rr = (F, Bv) if order == 0 else (Bv, F)
                        try:
                            got = ('ok', IMPL[op](l, rr))
                        except BASICError as e:
                            got = ('err', e.err)
                        part.n += 1
                        if -32768 <= r <= 32767:
                            x_, y_ = (r, b) if order == 0 else (b, r)
                            exp = REF[op](x_, y_)
                            if got != exp and not (op == 'mod' and (x_, y_) == (-32768, -1)):
                                part.violation(
                                    'floatop/%s/in-range' % op,
                                    '%r %s %d (order %d): got %r expected %r' % (x, op, b, order, got, exp),
                                    {'op': op, 'x': x, 'b': b, 'order': order, 'cls': cls.__name__})
                            part.classes.add('f-in-' + op)
                        elif op in ('intdiv', 'mod') or r > 65535 or r < -32768:
                            # must be Overflow (zero-divisor check may come first for b == 0
                            # only when the float is the dividend)
                            ok = got == ('err', OV)
                            if op in ('intdiv', 'mod') and b == 0 and order == 0:
                                ok = ok or got == ('err', DZ)
                            if not ok:
                                part.violation(
                                    'floatop/%s/out-of-range-accepted' % op,
                                    '%r %s %d (order %d): got %r expected Overflow' % (x, op, b, order, got),
                                    {'op': op, 'x': x, 'b': b, 'order': order, 'cls': cls.__name__})
                            part.classes.add('f-out-' + op)
                        else:
                            # 32768..65535 into a bitwise operator: the statement says accepted
                            x_, y_ = (num.s16(r), b) if order == 0 else (b, num.s16(r))
                            exp = REF[op](x_, y_)
                            if got != exp:
                                part.violation(
                                    'floatop/bitwise-float-operand-32768..65535',
                                    '%r %s %d (order %d): got %r, statement says accepted -> %r' % (
                                        x, op, b, order, got, exp),
                                    {'op': op, 'x': x, 'b': b, 'order': order, 'cls': cls.__name__})
                            part.classes.add('f-unsigned-' + op)
    # NOT with float operands
    for cls in (N.Single, N.Double):
        for x in fops:
            F = cls(None, vals).from_value(x)
            r = _cint_ref(num.mbf_to_fraction(F.to_bytes()))
            got = num.err_of(lambda: V.not_(F).to_int())
            part.n += 1
            if -32768 <= r <= 32767:
                if got != ('ok', num.s16(~r)):
                    part.violation('floatop/not/in-range', 'NOT %r -> %r' % (x, got), {'op': 'not', 'x': x})
            elif r > 65535 or r < -32768:
                if got != ('err', OV):
                    part.violation('floatop/not/out-of-range-accepted', 'NOT %r -> %r' % (x, got), {'op': 'not', 'x': x})
            else:
                if got != ('ok', num.s16(~r)):
                    part.violation('floatop/bitwise-float-operand-32768..65535',
                                   'NOT %r -> %r, statement says accepted' % (x, got), {'op': 'not', 'x': x})
    part.sample({'float_operands': fops[:6]})
    part.traces = part.n
    return part


def work_for(shard):
    """FOR I%=a TO lim STEP s, two iterations, through the interpreter."""
    from mc import harness as H
    part = Partial()
    s = H.new_session(horizon=50)
    for a, st in shard:
        lim = 32767 if st >= 0 else -32768
        stmt = b'N%%=0:FOR I%%=%d TO %d STEP %d:PRINT I%%;:N%%=N%%+1:IF N%%<2 THEN NEXT' % (a, lim, st)
        r = H.run(s, stmt)
        part.n += 1
        part.traces += 1
        if r.exc is not None:
            part.violation('for/host-exception/' + H.exc_key(r.exc), repr(r.exc), {'a': a, 'step': st})
            continue
        nxt = a + st
        if -32768 <= nxt <= 32767:
            exp_out = b'%s %s ' % (_fmt(a), _fmt(nxt))
            ok = (r.err is None and r.out.replace(b'\r\n', b'') == exp_out)
            part.classes.add('for-ok' + _sg(st))
        else:
            ok = (r.err == OV and r.out.replace(b'\r\n', b'').startswith(_fmt(a) + b' '))
            part.classes.add('for-ov' + _sg(st))
            # the NEXT that failed did not happen: the counter keeps its value
            r2 = H.run(s, b'PRINT I%')
            if ok and r2.out.strip() != _fmt(a).strip():
                part.violation('for/counter-changed-by-failed-next',
                               'FOR I%%=%d STEP %d: after the Overflow at NEXT the counter reads %r' % (a, st, r2.out),
                               {'a': a, 'step': st})
        if not ok:
            part.violation(
                'for/%s' % ('missed-overflow' if not -32768 <= nxt <= 32767 else 'wrong-count'),
                'FOR I%%=%d STEP %d: output %r err %r' % (a, st, r.out, r.err),
                {'a': a, 'step': st})
        # leave no open FOR frame behind
        H.run(s, b'CLEAR')
    part.sample({'for': shard[:2]})
    return part


def _fmt(i):
    return (b'%d' % i) if i < 0 else (b' %d' % i)


def legs(ctx):
    out = []
    out.append(Leg('unary', [(lo, min(lo + 4096, 32768)) for lo in range(-32768, 32768, 4096)],
                   work_unary, exhaustive=True, bound='all 65536 patterns'))
    if ctx.quick:
        nb = len(num.int_boundary_set())
        shards = [(op, lo, min(lo + 64, nb), 'quick') for op in OPS for lo in range(0, nb, 64)]
        out.append(Leg('binary', shards, work_binary, exhaustive=True, bound='B x B, B = %d boundary patterns' % nb))
        shards = [(op, lo, lo + 4096, 'quickall') for op in OPS for lo in range(-32768, 32768, 4096)]
        out.append(Leg('binary-all', shards, work_binary, exhaustive=True,
                       bound='(ALL x K) u (K x ALL), K = 24 core boundary values'))
    else:
        shards = [(op, lo, lo + 2048, 'thorough') for op in OPS for lo in range(-32768, 32768, 2048)]
        out.append(Leg('binary', shards, work_binary, exhaustive=True,
                       bound='(ALL x B) u (B x ALL), B = %d boundary patterns' % len(num.int_boundary_set(True))))
        import os
        if os.environ.get('VERIF_C02_FULL', '1') == '1':
            shards = [('iadd', lo, lo + 128, 'full') for lo in range(-32768, 32768, 128)]
            out.append(Leg('iadd-full', shards, work_binary, exhaustive=True, bound='all 2^32 ordered pairs'))
    out.append(Leg('floatop', [0], work_floatop, exhaustive=True,
                   bound='26 float operands x 2 types x B x 7 operators x 2 orders'))
    b = [num.s16(u) for u in num.int_boundary_set()]
    if ctx.quick:
        b = [x for i, x in enumerate(b) if i % 3 == 0 or abs(x) >= 32700 or abs(x) <= 2]
    # STEP 0 is not an addition question (and its loop test is unspecified, see C19)
    pairs = [(a, st) for a in b for st in b if st != 0]
    from mc.core import chunked
    out.append(Leg('for', list(chunked(pairs, 400)), work_for, exhaustive=True,
                   bound='start x step over %d boundary values' % len(b)))
    return out


def replay(ctx, leg, case):
    part = Partial()
    if leg in ('binary', 'binary-all', 'iadd-full'):
        _binary_pairs(part, case['op'], [case['a']], [case['b']], False)
    elif leg == 'unary':
        return work_unary((case['a'], case['a'] + 1))
    elif leg == 'floatop':
        return work_floatop(0)
    elif leg == 'for':
        return work_for([(case['a'], case['step'])])
    return part
