"""
C03 - numeric conversions and binary encodings are exact and consistent.

E1 (domain enumeration on the real functions values.cint_/fix_/int_/csng_/cdbl_/
mki_/mks_/mkd_/cvi_/cvs_/cvd_/hex_/oct_ and Values.from_repr):

  int-all      all 65536 integers: HEX$/OCT$ -> &H/&O/& re-read, MKI$/CVI of every 2-byte
               string, CSNG/CDBL exact, CINT/FIX/INT of the integral single/double
  int-session  the same round trips end-to-end through Session.evaluate (tokeniser+parser)
  single       mantissa alphabet x ALL 256 exponent bytes x 2 signs: CINT FIX INT CDBL CVS/MKS$
  double       mantissa alphabet x ALL 256 exponent bytes x 2 signs: CINT FIX INT CSNG CVD/MKD$
  dbl-to-sng   CSNG over (top-24-bit pattern) x (all 256 values of the first dropped byte)
               x (low 3 bytes pattern) x exponents x signs
  near-int     every n in -32770..32770 (and powers of two up to 2^56): n, n+-1/4, n+-1/2, n+-3/4
               and the representable neighbours of each, as single and double: CINT FIX INT
  single-full  (thorough) all 2^23 mantissas at 8 exponents x 2 signs: CINT FIX INT

Oracle: models/mbf.py - exact integer arithmetic on value*2^184.
"""
import struct

from mc.core import Leg, Partial, CheckError, from_pcbasic
from mc import num
from models import mbf
from pcbasic.basic.values import values as V
from pcbasic.basic.values import numbers as N
from pcbasic.basic.base import error

PROPERTY = 'C03'
ENGINE = 'E1 domain'
LEVEL = 'model_checking'
LEVEL_TEXT = (
    'Bounded exhaustive enumeration on the real conversion functions: all 65536 integers (HEX$/OCT$/&H/&O, '
    'MKI$/CVI, integral floats), every single and double built from a fixed alphabet of rounding-critical '
    'mantissas (1243 / 2277 patterns) at every one of the 256 exponent bytes and both signs, every value at or '
    'next to an integer / half-integer in -32770..32770, the double->single rounding over all 256 values of the '
    'first dropped byte, and (thorough) all 2^23 single mantissas at 8 exponents. Every outcome is compared with '
    'an exact integer-arithmetic reference written from the statement.')
LEVEL_NOTE = ('Floats outside the mantissa alphabets are covered only by the full-mantissa leg (singles, 8 '
              'exponents); trusted base: models/mbf.py decoding of MBF bytes and Python int arithmetic.')
TECHNIQUE = ('bounded exhaustive enumeration of integer / single / double bit patterns on the real values.* '
             'conversion functions against an exact integer reference model')
RULE = ('product of fixed alphabets (mantissa pattern x exponent byte x sign; all integers); a case class is '
        '(function, type, sign, magnitude class, outcome); non-trivial = everything except positive in-range '
        'values without fraction')
ASSUMPTIONS = [
    'internal seam: values.cint_/fix_/int_/csng_/cdbl_/mki_/mks_/mkd_/cvi_/cvs_/cvd_/hex_/oct_, Values.from_repr '
    '(string functions on the Values object of a real Session, numeric ones on a bare Values whose float errors raise)',
    'CINT of a value outside -32768..32767 that still rounds into the range (-32768.5 < x < -32768, '
    '32767 < x < 32767.5): the statement is ambiguous, both Overflow and the rounded value are accepted',
    'double->single: when the upper neighbour is not representable (largest exponent, mantissa all ones) Overflow is '
    'accepted wherever the statement allows rounding up',
    'FIX/INT: only the value of the result is checked, not its type',
    'a zero exponent byte means zero whatever the mantissa; results are compared by value, except MKx$/CVx (bytes)',
]

OV = error.OVERFLOW
BASICError = error.BASICError
SCALE = mbf.SCALE
ONE = 1 << SCALE


def _err_or_raise(part, e, key, case):
    """Non-BASIC exception: pcbasic's -> violation; the harness's -> propagate."""
    if from_pcbasic(e):
        part.violation('%s/host-exception/%s' % (key, type(e).__name__),
                       '%s: %r on %r' % (type(e).__name__, e, case), case)
        return ('exc', type(e).__name__)
    raise


_LAST = {}


def _stable(part, key, case, value):
    """A value handed out earlier must not change when the same conversion is used again (an
    expression can hold several results at once)."""
    prev = _LAST.get(key)
    if prev is not None and bytes(prev[0]._buffer) != prev[1] and prev[0] is not value:
        part.violation('%s/earlier-result-changed' % key, 'the result %s of an earlier call reads %s after the call for %r' % (
            prev[1].hex(), bytes(prev[0]._buffer).hex(), case), case)
    elif prev is not None and prev[0] is value:
        part.violation('%s/same-object-returned-twice' % key, 'two calls returned the same value object (%r)' % (case,), case)
    if hasattr(value, '_buffer') and len(value._buffer) in (2, 4, 8):
        _LAST[key] = (value, bytes(value._buffer))


def _call(part, key, case, fn, arg):
    try:
        r = fn([arg])
        if r is not arg:
            _stable(part, key, case, r)
        return ('ok', r)
    except BASICError as e:
        return ('err', e.err)
    except Exception as e:
        return _err_or_raise(part, e, key, case)


def _mag_class(x):
    ax = -x if x < 0 else x
    if ax == 0:
        return 'zero'
    frac = ax & (ONE - 1)
    ip = ax >> SCALE
    if ip >= 32768:
        return 'big' if frac == 0 else 'bigfrac'
    if frac == 0:
        return 'integral'
    if frac == ONE >> 1:
        return 'half'
    return 'lo' if frac < ONE >> 1 else 'hi'


class _OneString(object):
    """String space holding the last stored string only (MKI$ of the float operands needs somewhere to put it)."""

    def __init__(self):
        self.last = b''

    def store(self, s, address=None):
        self.last = bytes(s)
        return len(self.last), 0x1000

    def view(self, length, address):
        return memoryview(self.last)[:length]


class _Env(object):
    """Per-worker objects: bare Values for numeric conversions, Session values for strings."""

    def __init__(self, strings=True):
        self.vals = num.make_values()
        self.vals.stringspace = _OneString()
        self.A = {4: N.Single(None, self.vals), 8: N.Double(None, self.vals)}
        self.session = None
        if strings:
            from mc import harness as H
            self.session = H.new_session()
            self.sv = self.session._impl.values
            self.SA = {4: N.Single(None, self.sv), 8: N.Double(None, self.sv), 2: N.Integer(None, self.sv)}


def check_float(part, env, fmt, neg, exp, man, do_str=True, do_conv=True):
    """All C03 clauses for one single/double value."""
    size = fmt.size
    b = fmt.bytes(neg, exp, man)
    A = env.A[size]
    A._buffer[:] = b
    x = mbf.scaled_triple(fmt, neg, exp, man)
    tname = fmt.name
    case = {'type': tname, 'bytes': b}
    sg = '-' if neg else '+'
    mc = _mag_class(x)
    n = 0
    # ---- CINT
    want = mbf.cint_scaled(x)
    got = _call(part, 'cint', case, V.cint_, A)
    n += 1
    inrange = -32768 <= want <= 32767
    strictly_in = (-32768 << SCALE) <= x <= (32767 << SCALE)
    if got[0] == 'ok':
        r = got[1]
        if type(r) is not N.Integer:
            part.violation('cint/%s/not-integer' % tname, 'CINT(%s) returned %r' % (b.hex(), r), case)
        else:
            gi = int.from_bytes(r._buffer, 'little', signed=True)
            if not inrange:
                part.violation('cint/%s/missed-overflow' % tname,
                               'CINT(%s %s): got %d, expected Overflow (exact rounds to %d)' % (tname, b.hex(), gi, want), case)
            elif gi != want:
                part.violation('cint/%s/wrong-value' % tname,
                               'CINT(%s %s): got %d, expected %d' % (tname, b.hex(), gi, want), case)
        part.classes.add('cint %s %s %s ok' % (tname[0], sg, mc))
    elif got[0] == 'err':
        if got[1] != OV:
            part.violation('cint/%s/wrong-error' % tname, 'CINT(%s): error %r' % (b.hex(), got[1]), case)
        elif strictly_in:
            part.violation('cint/%s/spurious-overflow' % tname,
                           'CINT(%s %s): Overflow, expected %d' % (tname, b.hex(), want), case)
        part.classes.add('cint %s %s %s ov' % (tname[0], sg, mc))
    # ---- MKI$ of a float: the two bytes of CINT of it (the other statements that take an integer argument
    # convert the same way), Overflow under the same condition
    gm = _call(part, 'mki', case, V.mki_, A)
    n += 1
    if gm[0] == 'ok':
        mb = bytes(gm[1].to_str())
        if not inrange:
            part.violation('mki/%s/missed-overflow' % tname, 'MKI$(%s %s) gave %s, expected Overflow' % (tname, b.hex(), mb.hex()), case)
        elif mb != struct.pack('<h', want):
            part.violation('mki/%s/wrong-value' % tname, 'MKI$(%s %s) gave %s, CINT rounds to %d' % (tname, b.hex(), mb.hex(), want), case)
    elif gm[0] == 'err' and (gm[1] != OV or strictly_in):
        part.violation('mki/%s/wrong-error' % tname, 'MKI$(%s %s): error %r, CINT rounds to %d' % (tname, b.hex(), gm[1], want), case)
    # ---- FIX, INT
    for key, fn, ref in (('fix', V.fix_, mbf.fix_scaled), ('int', V.int_, mbf.floor_scaled)):
        want = ref(x)
        got = _call(part, key, case, fn, A)
        n += 1
        if got[0] == 'ok':
            r = got[1]
            if not isinstance(r, N.Number):
                part.violation('%s/%s/not-a-number' % (key, tname), '%s(%s) returned %r' % (key, b.hex(), r), case)
            else:
                gv = mbf.scaled_bytes(r._buffer)
                if gv != want << SCALE:
                    part.violation(
                        '%s/%s/wrong-value' % (key, tname),
                        '%s(%s %s): got bytes %s, expected the integer %d' % (
                            key.upper(), tname, b.hex(), bytes(r._buffer).hex(), want), case)
        elif got[0] == 'err':
            part.violation('%s/%s/error' % (key, tname), '%s(%s %s): error %r' % (key.upper(), tname, b.hex(), got[1]), case)
        if want << SCALE != x:
            part.classes.add('%s %s %s %s' % (key, tname[0], sg, mc))
    # the input must not have been modified
    if bytes(A._buffer) != b:
        part.violation('conv/%s/operand-modified' % tname, 'operand %s changed to %s' % (b.hex(), bytes(A._buffer).hex()), case)
    if do_conv:
        if size == 4:
            # ---- single -> double exact
            got = _call(part, 'cdbl', case, V.cdbl_, A)
            n += 1
            if got[0] == 'ok':
                r = got[1]
                if type(r) is not N.Double:
                    part.violation('cdbl/not-double', 'CDBL(%s) returned %r' % (b.hex(), r), case)
                elif mbf.scaled_bytes(r._buffer) != x:
                    part.violation('cdbl/inexact', 'CDBL(single %s) = double %s: not the same value' % (
                        b.hex(), bytes(r._buffer).hex()), case)
            elif got[0] == 'err':
                part.violation('cdbl/error', 'CDBL(single %s): error %r' % (b.hex(), got[1]), case)
            # CSNG of a single is the identity
            got = _call(part, 'csng', case, V.csng_, A)
            n += 1
            if got[0] != 'ok' or mbf.scaled_bytes(got[1]._buffer) != x or type(got[1]) is not N.Single:
                part.violation('csng/single-changed', 'CSNG(single %s) -> %r' % (b.hex(), got), case)
        else:
            n += check_csng(part, env, neg, exp, man)
            got = _call(part, 'cdbl', case, V.cdbl_, A)
            n += 1
            if got[0] != 'ok' or mbf.scaled_bytes(got[1]._buffer) != x or type(got[1]) is not N.Double:
                part.violation('cdbl/double-changed', 'CDBL(double %s) -> %r' % (b.hex(), got), case)
    if do_str:
        n += check_mk_cv(part, env, b)
    part.n += n


def check_csng(part, env, neg, exp, man):
    """double -> single: one of the two neighbours, the nearer one unless within 1/256 ulp of halfway."""
    b = mbf.DBL.bytes(neg, exp, man)
    A = env.A[8]
    A._buffer[:] = b
    case = {'type': 'double', 'bytes': b, 'op': 'csng'}
    got = _call(part, 'csng', case, V.csng_, A)
    allowed = mbf.csng_allowed(neg, exp, man)
    low = man & 0xffffffff
    cls = 'zero' if exp == 0 else ('exact' if low == 0 else ('tie-zone' if len(allowed) == 2 else (
        'down' if low < 1 << 31 else 'up')))
    if got[0] == 'ok':
        r = got[1]
        if type(r) is not N.Single:
            part.violation('csng/not-single', 'CSNG(%s) returned %r' % (b.hex(), r), case)
        elif allowed is None:
            if bytes(r._buffer)[-1] != 0:
                part.violation('csng/zero-not-zero', 'CSNG(double zero %s) = %s' % (b.hex(), bytes(r._buffer).hex()), case)
        else:
            rb = bytes(r._buffer)
            if ('ok', rb) not in allowed:
                lo = mbf.SNG.bytes(neg, exp, man >> 32)
                what = 'not-a-neighbour'
                if rb == lo or (man >> 32) + 1 < (1 << 24) and rb == mbf.SNG.bytes(neg, exp, (man >> 32) + 1) \
                        or (man >> 32) + 1 == (1 << 24) and exp < 255 and rb == mbf.SNG.bytes(neg, exp + 1, 1 << 23):
                    what = 'not-nearest'
                part.violation('csng/%s' % what, 'CSNG(double %s) = single %s, allowed %s' % (
                    b.hex(), rb.hex(), [a[1].hex() if a[0] == 'ok' else 'Overflow' for a in allowed]), case)
        part.classes.add('csng %s %s ok' % ('-' if neg else '+', cls))
    elif got[0] == 'err':
        if allowed is None or got not in allowed:
            part.violation('csng/spurious-error', 'CSNG(double %s): error %r, allowed %s' % (
                b.hex(), got[1], allowed and [a[1].hex() if a[0] == 'ok' else 'Overflow' for a in allowed]), case)
        part.classes.add('csng %s %s ov' % ('-' if neg else '+', cls))
    if bytes(A._buffer) != b:
        part.violation('csng/operand-modified', 'operand %s changed' % b.hex(), case)
    return 1


_MK = {2: V.mki_, 4: V.mks_, 8: V.mkd_}
_CV = {2: V.cvi_, 4: V.cvs_, 8: V.cvd_}
_CLS = {2: N.Integer, 4: N.Single, 8: N.Double}


def check_mk_cv(part, env, b):
    """CVx(string b) has encoding b; MKx$(value with encoding b) == b; also with trailing bytes."""
    size = len(b)
    nm = {2: 'i', 4: 's', 8: 'd'}[size]
    case = {'op': 'mkcv', 'bytes': b}
    sv = env.sv
    n = 0
    for s in (b, b + b'\xa5'):
        st = sv.new_string().from_str(s)
        got = _call(part, 'cv' + nm, case, _CV[size], st)
        n += 1
        if got[0] != 'ok' or type(got[1]) is not _CLS[size] or bytes(got[1]._buffer) != b:
            part.violation('cv%s/bytes-changed' % nm, 'CV%s(%s) -> %r' % (nm.upper(), s.hex(), got), case)
            continue
        got2 = _call(part, 'mk' + nm, case, _MK[size], got[1])
        n += 1
        if got2[0] != 'ok' or got2[1].to_str() != b:
            part.violation('mk%s/bytes-changed' % nm, 'MK%s$(CV%s(%s)) -> %r' % (
                nm.upper(), nm.upper(), s.hex(), got2[1].to_str().hex() if got2[0] == 'ok' else got2), case)
    X = env.SA[size]
    X._buffer[:] = b
    got = _call(part, 'mk' + nm, case, _MK[size], X)
    n += 1
    if got[0] != 'ok' or got[1].to_str() != b:
        part.violation('mk%s/bytes-changed' % nm, 'MK%s$(value %s) -> %r' % (
            nm.upper(), b.hex(), got[1].to_str().hex() if got[0] == 'ok' else got), case)
    return n


# ---------------------------------------------------------------------------
# legs

def work_int_all(shard):
    lo, hi = shard
    part = Partial()
    env = _Env()
    sv = env.sv
    I = env.SA[2]
    for i in range(lo, hi):
        b = struct.pack('<h', i)
        I._buffer[:] = b
        case = {'op': 'int', 'i': i}
        # HEX$/OCT$ -> &H / &O / &
        for key, fn, prefixes in (('hex', V.hex_, (b'&H', b'&h')), ('oct', V.oct_, (b'&O', b'&', b'&o'))):
            got = _call(part, key, case, fn, I)
            part.n += 1
            if got[0] != 'ok':
                part.violation('%s/error' % key, '%s$(%d) -> %r' % (key.upper(), i, got), case)
                continue
            txt = got[1].to_str()
            for p in prefixes:
                try:
                    back = ('ok', sv.from_repr(p + txt, False))
                    _stable(part, 'from_repr', case, back[1])
                except BASICError as e:
                    back = ('err', e.err)
                except Exception as e:
                    back = _err_or_raise(part, e, key, case)
                part.n += 1
                if back[0] != 'ok' or type(back[1]) is not N.Integer or bytes(back[1]._buffer) != b:
                    part.violation('%s/roundtrip' % key, '%s$(%d) = %r, re-read %r -> %r' % (
                        key.upper(), i, txt, p + txt, back), case)
        part.n += check_mk_cv(part, env, b)
        # integer -> single / double is exact, and CINT/FIX/INT give it back
        for fmt in (mbf.SNG, mbf.DBL):
            fn = V.csng_ if fmt is mbf.SNG else V.cdbl_
            got = _call(part, 'int-to-' + fmt.name, case, fn, I)
            part.n += 1
            want = mbf.int_to_fmt(fmt, i)
            if got[0] != 'ok' or mbf.scaled_bytes(got[1]._buffer) != i << SCALE or len(got[1]._buffer) != fmt.size:
                part.violation('int-to-%s/inexact' % fmt.name, '%d -> %r' % (i, got), case)
                continue
            if i != 0:
                neg, exp, man = fmt.unbytes(want)
                check_float(part, env, fmt, neg, exp, man, do_str=False, do_conv=False)
        got = _call(part, 'cint', case, V.cint_, I)
        part.n += 1
        if got[0] != 'ok' or bytes(got[1]._buffer) != b:
            part.violation('cint/integer-changed', 'CINT(%d%%) -> %r' % (i, got), case)
        part.classes.add('int %s' % ('-' if i < 0 else '+' if i else '0'))
    part.traces = part.n
    part.sample({'int_range': [lo, hi]})
    return part


_SESS_KEYS = {'PAIR': 'two-radix-values-in-one-expression', 'PAIR2': 'two-conversions-in-one-expression', '&H': 'hex', '&O': 'oct', '&': 'oct-bare', 'VAL&H': 'val-hex', 'VAL&O': 'val-oct', 'CVI': 'cvi',
              'CINT!': 'cint-single', 'CINT#': 'cint-double', 'MKI': 'mki'}


def work_int_session(shard):
    from mc import harness as H
    part = Partial()
    s = H.new_session()
    ev = s.evaluate
    prev = shard[-1]
    for i in shard:
        case = {'op': 'int-session', 'i': i, 'prev': prev}
        try:
            h = ev(b'HEX$(%d)' % i)
            o = ev(b'OCT$(%d)' % i)
            res = [
                ('&H', ev(b'&H' + h)), ('&O', ev(b'&O' + o)), ('&', ev(b'&' + o)),
                ('VAL&H', ev(b'VAL("&H"+HEX$(%d))' % i)), ('VAL&O', ev(b'VAL("&O"+OCT$(%d))' % i)),
                ('CVI', ev(b'CVI(MKI$(%d))' % i)),
                ('CINT!', ev(b'CINT(CSNG(%d))' % i)), ('CINT#', ev(b'CINT(CDBL(%d))' % i)),
                ('MKI', ev(b'MKI$(%d)' % i)),
                ('PAIR', ev(b'VAL("&H"+HEX$(%d)) XOR VAL("&O"+OCT$(%d))' % (i, prev))),
                ('PAIR2', ev(b'(VAL("&O"+OCT$(%d))=VAL("&H"+HEX$(%d)))+2*(CVI(MKI$(%d))=CVI(MKI$(%d)))+4*(CINT(CSNG(%d))=CINT(CDBL(%d)))' % (
                    i, prev, i, prev, i, prev))),
            ]
        except Exception as e:
            if from_pcbasic(e):
                part.violation('session/host-exception/%s' % type(e).__name__, '%r for %d' % (e, i), case)
                continue
            raise
        part.n += len(res) + 2
        for name, v in res:
            want = struct.pack('<h', i) if name == 'MKI' else i
            if name == 'PAIR':
                want = num.s16((i ^ prev) & 0xffff)
            elif name == 'PAIR2':
                want = -7 if i == prev else 0
            if v != want:
                part.violation('session/%s-roundtrip' % _SESS_KEYS[name],
                               '%s of %d (HEX$=%r OCT$=%r) gave %r' % (name, i, h, o, v), case)
        part.classes.add('sess %s' % ('-' if i < 0 else '+' if i else '0'))
        prev = i
    part.traces = part.n
    part.sample({'ints': shard[:3]})
    return part


def work_float(shard):
    """mantissa alphabet x exponent range x signs."""
    size, level, e_lo, e_hi = shard
    fmt = mbf.BY_SIZE[size]
    part = Partial()
    env = _Env()
    mans = mbf.mant_set(fmt.nbits, level)
    for exp in range(e_lo, e_hi):
        for neg in (False, True):
            for man in mans:
                check_float(part, env, fmt, neg, exp, man)
    part.traces = part.n
    part.sample({'type': fmt.name, 'exp_range': [e_lo, e_hi], 'mantissas': len(mans)})
    return part


D2S_LOW = (0x000000, 0x000001, 0x7fffff, 0x800000, 0xffffff, 0x555555)
D2S_EXPS = (0, 1, 2, 0x80, 0x81, 0x98, 0xfe, 0xff)


def work_d2s(shard):
    level, tops = shard
    part = Partial()
    env = _Env(strings=False)
    for top in tops:
        for b3 in range(256):
            for low in D2S_LOW:
                man = (top << 32) | (b3 << 24) | low
                for exp in D2S_EXPS:
                    for neg in (False, True):
                        part.n += check_csng(part, env, neg, exp, man)
    part.traces = part.n
    part.sample({'top24': tops[:2]})
    return part


NEAR_EXTRA = [1 << k for k in range(15, 57)] + [(1 << k) - 1 for k in range(16, 57)] + [65535, 65537, 100000, 16777217]
_Q = ONE >> 2


def work_near_int(shard):
    part = Partial()
    env = _Env(strings=False)
    seen = set()
    for n0 in shard:
        for n in (n0, -n0) if n0 > 32770 else (n0,):
            for f in (0, _Q, 2 * _Q, 3 * _Q, -_Q, -2 * _Q, -3 * _Q):
                x = (n << SCALE) + f
                for fmt in (mbf.SNG, mbf.DBL):
                    b = mbf.encode_scaled(fmt, x)
                    if b is None:
                        continue
                    cands = [b]
                    if x:
                        neg, exp, man = fmt.unbytes(b)
                        u = 1 << (exp - fmt.bias2 + SCALE)
                        for d in (u, -u, u >> 1, -(u >> 1)):
                            bb = mbf.encode_scaled(fmt, x + d)
                            if bb is not None:
                                cands.append(bb)
                    for bb in cands:
                        if bb in seen:
                            continue
                        seen.add(bb)
                        neg, exp, man = fmt.unbytes(bb)
                        if exp == 0:
                            man = fmt.top
                        check_float(part, env, fmt, neg, exp, man, do_str=False, do_conv=False)
        if len(seen) > 200000:
            seen.clear()
    part.traces = part.n
    part.sample({'near': shard[:3]})
    return part


FULL_EXPS = (0x80, 0x81, 0x82, 0x88, 0x90, 0x91, 0x97, 0x98)


def work_single_full(shard):
    """All mantissas in [m_lo, m_hi) at one exponent and sign: CINT FIX INT (tight loop)."""
    exp, neg, m_lo, m_hi = shard
    part = Partial()
    vals = num.make_values()
    A = N.Single(None, vals)
    buf = A._buffer
    pack = struct.pack_into
    base = (exp << 24) | ((1 if neg else 0) << 23)
    sh = exp - 152 + SCALE
    cint_, fix_, int_ = V.cint_, V.fix_, V.int_
    cref, fref, iref = mbf.cint_scaled, mbf.fix_scaled, mbf.floor_scaled
    scaled_bytes = mbf.scaled_bytes
    lo_s, hi_s = -32768 << SCALE, 32767 << SCALE
    arg = [A]
    bad = 0
    for man in range(m_lo, m_hi):
        pack('<I', buf, 0, base | (man & 0x7fffff))
        x = man << sh
        if neg:
            x = -x
        ok = True
        want = cref(x)
        try:
            r = cint_(arg)
            if not (-32768 <= want <= 32767) or int.from_bytes(r._buffer, 'little', signed=True) != want:
                ok = False
        except BASICError as e:
            if e.err != OV or lo_s <= x <= hi_s:
                ok = False
        try:
            if scaled_bytes(fix_(arg)._buffer) != fref(x) << SCALE:
                ok = False
            if scaled_bytes(int_(arg)._buffer) != iref(x) << SCALE:
                ok = False
        except BASICError:
            ok = False
        if not ok:
            # re-run through the general checker to get a precise key
            bad += 1
            if bad <= 5:
                env = _Env(strings=False)
                check_float(part, env, mbf.SNG, neg, exp, man, do_str=False, do_conv=False)
                if not part.viol:
                    raise CheckError('single-full: fast path and general checker disagree on %r' % ((neg, exp, man),))
    part.n += 3 * (m_hi - m_lo)
    part.traces = part.n
    part.classes.add('full %02x %s' % (exp, '-' if neg else '+'))
    part.sample({'exp': exp, 'neg': neg, 'mantissas': [m_lo, m_hi]})
    return part


def legs(ctx):
    from mc.core import chunked
    out = []
    out.append(Leg('int-all', [(lo, lo + 2048) for lo in range(-32768, 32768, 2048)], work_int_all,
                   exhaustive=True, bound='all 65536 integers / 2-byte strings'))
    if ctx.quick:
        ints = [num.s16(u) for u in num.int_boundary_set(extra=True)]
        bound = '%d boundary integers' % len(ints)
    else:
        ints = list(range(-32768, 32768))
        bound = 'all 65536 integers'
    out.append(Leg('int-session', list(chunked(ints, 512)), work_int_session, exhaustive=True,
                   bound=bound + ' through Session.evaluate (HEX$ OCT$ &H &O & VAL CVI MKI$ CINT)'))
    lvl_s = 3
    lvl_d = 2 if ctx.quick else 3
    out.append(Leg('single', [(4, lvl_s, e, min(e + 4, 256)) for e in range(0, 256, 4)], work_float, exhaustive=False,
                   bound='%d mantissa patterns x all 256 exponent bytes x 2 signs' % len(mbf.mant_set(24, lvl_s))))
    out.append(Leg('double', [(8, lvl_d, e, min(e + 2, 256)) for e in range(0, 256, 2)], work_float, exhaustive=False,
                   bound='%d mantissa patterns x all 256 exponent bytes x 2 signs' % len(mbf.mant_set(56, lvl_d))))
    lvl_t = 1 if ctx.quick else 3
    tops = mbf.mant_set(24, lvl_t)
    out.append(Leg('dbl-to-sng', [(lvl_t, c) for c in chunked(tops, 4 if ctx.quick else 8)], work_d2s, exhaustive=False,
                   bound='%d top-24-bit patterns x 256 first dropped bytes x %d low-3-byte patterns x %d exponents x 2 signs' % (
                       len(tops), len(D2S_LOW), len(D2S_EXPS))))
    near = list(range(-32770, 32771)) + NEAR_EXTRA
    out.append(Leg('near-int', list(chunked(near, 512)), work_near_int, exhaustive=False,
                   bound='n in -32770..32770 and +-(2^k, 2^k-1) up to 2^56; offsets 0, +-1/4, +-1/2, +-3/4 and their '
                         'representable neighbours; single and double'))
    if not ctx.quick:
        step = 1 << 18
        shards = [(e, neg, m, m + step) for e in FULL_EXPS for neg in (False, True)
                  for m in range(1 << 23, 1 << 24, step)]
        out.append(Leg('single-full', shards, work_single_full, exhaustive=True,
                       bound='all 2^23 single mantissas at exponent bytes %s, both signs' % (
                           ','.join('%02X' % e for e in FULL_EXPS))))
    return out


def replay(ctx, leg, case):
    part = Partial()
    env = _Env()
    if case.get('op') in ('int', 'int-session') or 'i' in case:
        i = case['i']
        if leg == 'int-session':
            return work_int_session([case.get('prev', i), i])
        return work_int_all((i, i + 1))
    b = bytes(case['bytes'])
    if len(b) == 2:
        check_mk_cv(part, env, b)
        return part
    fmt = mbf.BY_SIZE[len(b)]
    neg, exp, man = fmt.unbytes(b)
    check_float(part, env, fmt, neg, exp, man)
    return part
