"""
C41 - codepage conversion round trips.

Legs
  tables  E1, all 48 shipped codepages x box_protect on/off (exhaustive):
            * every character (NFC cluster) of the repertoire: unicode -> bytes -> unicode is the identity
            * every single byte 00..FF and every lead x trail pair: if the sequence is defined and its
              Unicode mapping is unique in the page, bytes -> unicode -> bytes is the identity;
              undefined / ambiguous sequences only have to convert without a host exception
  stream  E1, the 8 DBCS pages x box_protect x preserve-set: all byte strings of length <= n over one (two)
          representative(s) of every byte class the converter can distinguish x all 2^(n-1) ways of cutting
          the string into chunks + final flush: the emitted sequences concatenate to the input
  bfs     E2, the converter as a state machine: BFS over (buffer, box set, last) states to a fixed point;
          invariant emitted + buffered == fed in every state, flush from every state returns the rest
The reference tables are parsed from the .ucp files by this module (not by pcbasic's loader).
"""
import os
import copy
import itertools
import unicodedata

from mc.core import Leg, Partial, CheckError, chunked, from_pcbasic
from mc import bfs

PROPERTY = 'C41'
ENGINE = 'E1 domain + E2 bfs'
LEVEL = 'model_checking'
LEVEL_TEXT = (
    'Exhaustive over the whole finite domain for the tables: all 48 shipped codepages, every repertoire '
    'character, every single byte and every lead x trail pair, with and without box protection. The streaming '
    'DBCS converter is explored as a finite state machine to a fixed point, and all byte strings up to length '
    '5 (quick: 4) over representatives of every byte class it can distinguish are converted under every '
    'chunking.')
LEVEL_NOTE = ('Byte classes are data-independent abstractions: the converter only tests membership of a byte '
              'in the lead/trail/box/preserve sets, never its value. Reference tables are parsed from the '
              '.ucp files independently of pcbasic.')
TECHNIQUE = ('exhaustive enumeration of codepage tables and bounded exhaustive enumeration of byte strings x '
             'chunkings on the real Codepage/Converter against tables parsed independently from the .ucp files')
RULE = ('tables: one case per (page, box_protect, code point or repertoire cluster); class = (sbcs/dbcs, '
        'single/pair/cluster, unique/ambiguous/undefined/substitute); stream: one case per (page, options, byte '
        'string, cut set); class = (page, options, multiset of byte classes used)')
ASSUMPTIONS = [
    'uniqueness of a Unicode mapping is judged after NFC normalisation of the clusters in the .ucp file',
    'printable-ASCII code points whose .ucp entry is a different glyph (932/949 5C, 864 25 2A) are glyph '
    'substitutes: the glyph round-trips with use_substitutes=True, the byte round-trips as ASCII',
    'internal seam: Converter._mark(bytes, flush) returns the byte sequences the statement talks about; '
    'Converter._buf/_bset/_last are the complete converter state (canonical BFS key)',
    'the statement requires the sequences to concatenate to the input for every chunking; it does not '
    'require the split itself to be chunking-independent (this is recorded as an outcome, not judged)',
]

CONTROL = (b'\x07', b'\x09', b'\x0a', b'\x0b', b'\x0c', b'\x0d', b'\x1c', b'\x1d', b'\x1e', b'\x1f')
BOX = (u'─', u'═')


def _cp_dir():
    import pcbasic.data.codepages as m
    return os.path.dirname(os.path.abspath(m.__file__))


def page_names():
    return sorted(f[:-4] for f in os.listdir(_cp_dir()) if f.lower().endswith('.ucp'))


def parse_ucp(name):
    """Reference parser for the .ucp format: 'HEX: UUUU[,UUUU...]  # comment'."""
    table = {}
    with open(os.path.join(_cp_dir(), name + '.ucp'), 'rb') as f:
        for line in f.read().splitlines():
            line = line.split(b'#')[0].strip()
            if not line or b':' not in line:
                continue
            k, v = line.split(b':', 1)
            try:
                key = bytes.fromhex(k.strip().decode('ascii'))
                val = u''.join(chr(int(x.strip(), 16)) for x in v.split(b','))
            except ValueError:
                continue
            table[key] = val
    return table


class Ref(object):
    """Facts about a page derived from the file only."""

    def __init__(self, name):
        self.name = name
        self.table = parse_ucp(name)
        self.nfc = dict((k, unicodedata.normalize('NFC', v)) for k, v in self.table.items())
        self.lead = sorted(set(k[:1] for k in self.table if len(k) == 2))
        self.trail = sorted(set(k[1:] for k in self.table if len(k) == 2))
        self.dbcs = bool(self.lead)
        # glyph substitutes for printable ascii
        self.subst = dict((k, v) for k, v in self.nfc.items()
                          if len(k) == 1 and 0x20 <= k[0] <= 0x7e and v != chr(k[0]))
        # effective mapping as a character set: printable ascii stays ascii
        self.eff = dict(self.nfc)
        for k in self.subst:
            self.eff[k] = chr(k[0])
        count = {}
        for k, v in self.eff.items():
            count[v] = count.get(v, 0) + 1
        for k, v in self.subst.items():
            count[v] = count.get(v, 0) + 1
        self.count = count
        self.box = [sorted(k for k, v in self.table.items() if len(k) == 1 and v == BOX[i]) for i in (0, 1)]

    def unique(self, key):
        return key in self.eff and self.count[self.eff[key]] == 1

    def byte_classes(self, preserve):
        """signature -> list of bytes; the converter can only distinguish bytes by these memberships."""
        lead, trail = set(self.lead), set(self.trail)
        cls = {}
        for c in range(256):
            b = bytes([c])
            sig = (b in preserve, b in lead, b in trail, b in self.box[0], b in self.box[1])
            cls.setdefault(sig, []).append(b)
        return cls


_REFS = {}
_PAGES = {}


def ref_for(name):
    if name not in _REFS:
        _REFS[name] = Ref(name)
    return _REFS[name]


def _load(name, box_protect):
    if (name, box_protect) not in _PAGES:
        _PAGES[(name, box_protect)] = _load_uncached(name, box_protect)
    return _PAGES[(name, box_protect)]


def _load_uncached(name, box_protect):
    import importlib
    cpm = importlib.import_module('pcbasic.basic.codepage')
    from pcbasic.data import read_codepage
    return cpm.Codepage(read_codepage(name), box_protect=box_protect)


def _call(part, key, case, fn, *args, **kw):
    """Run a pcbasic conversion; a host exception from inside pcbasic is a violation."""
    try:
        return True, fn(*args, **kw)
    except Exception as e:
        if from_pcbasic(e) or type(e).__name__.startswith('Unicode'):
            part.violation('%s/host-exception/%s' % (key, type(e).__name__), '%s: %r' % (case, e), case)
            return False, None
        raise


###############################################################################
# tables leg

def work_tables(shard):
    name, bp = shard
    part = Partial()
    ref = ref_for(name)
    cp = _load(name, bp)
    kind = 'dbcs' if ref.dbcs else 'sbcs'
    tag = '%s' % ('box' if bp else 'nobox')
    # --- repertoire: unicode -> bytes -> unicode
    clusters = sorted(set(ref.nfc.values()))
    for u in clusters:
        case = {'page': name, 'box_protect': bp, 'cluster': [ord(c) for c in u]}
        part.n += 1
        is_subst = u in ref.subst.values()
        ok, b = _call(part, 'repertoire', case, cp.unicode_to_bytes, u)
        if not ok:
            continue
        ok, u2 = _call(part, 'repertoire', case, cp.bytes_to_unicode, b)
        if not ok:
            continue
        part.classes.add('%s/%s/cluster%d/%s' % (kind, tag, min(len(u), 2), 'subst' if is_subst else 'plain'))
        if u2 == u:
            part.outcome('repertoire:ok')
            continue
        if is_subst:
            ok, u3 = _call(part, 'repertoire', case, cp.bytes_to_unicode, b, use_substitutes=True)
            if ok and u3 == u:
                part.outcome('repertoire:ok-with-substitutes')
                continue
        part.outcome('repertoire:FAIL')
        part.violation(
            'repertoire/%s/%s' % (kind, 'cluster' if len(u) > 1 else ('empty-bytes' if not b else 'wrong-char')),
            'page %s box_protect=%s: U+%s -> %r -> U+%s' % (
                name, bp, ','.join('%04X' % ord(c) for c in u), b, ','.join('%04X' % ord(c) for c in u2)),
            case)
    # --- bytes -> unicode -> bytes
    seqs = [bytes([c]) for c in range(256)]
    seqs += [l + t for l in ref.lead for t in ref.trail]
    for k in seqs:
        case = {'page': name, 'box_protect': bp, 'bytes': k}
        part.n += 1
        ok, u = _call(part, 'bytes', case, cp.bytes_to_unicode, k)
        if not ok:
            continue
        shape = 'single' if len(k) == 1 else 'pair'
        if k not in ref.eff:
            part.classes.add('%s/%s/%s/undefined' % (kind, tag, shape))
            part.outcome('bytes:undefined')
            continue
        if not ref.unique(k):
            part.classes.add('%s/%s/%s/ambiguous' % (kind, tag, shape))
            part.outcome('bytes:ambiguous')
            continue
        ok, b = _call(part, 'bytes', case, cp.unicode_to_bytes, u)
        if not ok:
            continue
        part.classes.add('%s/%s/%s/unique%s' % (kind, tag, shape, '-subst' if k in ref.subst else ''))
        if b == k:
            part.outcome('bytes:ok')
        else:
            part.outcome('bytes:FAIL')
            part.violation(
                'bytes/%s/%s/%s' % (kind, shape, 'lost' if not b else 'wrong-bytes'),
                'page %s box_protect=%s: %r -> U+%s -> %r (file: U+%s, unique in page)' % (
                    name, bp, k, ','.join('%04X' % ord(c) for c in u), b,
                    ','.join('%04X' % ord(c) for c in ref.nfc[k])),
                case)
        if u != ref.eff[k] and not (k in ref.subst):
            part.violation(
                'bytes/%s/%s/wrong-unicode' % (kind, shape),
                'page %s: %r -> U+%s but the .ucp file says U+%s' % (
                    name, k, ','.join('%04X' % ord(c) for c in u),
                    ','.join('%04X' % ord(c) for c in ref.eff[k])), case)
    part.sample({'page': name, 'box_protect': bp, 'clusters': len(clusters), 'sequences': len(seqs)})
    part.traces = part.n
    return part


###############################################################################
# cross leg: a page converts the same whatever pages were loaded before it in the process

def _fresh_module():
    import importlib
    cpm = importlib.import_module('pcbasic.basic.codepage')
    return importlib.reload(cpm)


def work_cross(shard):
    from pcbasic.data import read_codepage
    part = Partial()
    for first, second, bp in shard:
        cpm = _fresh_module()
        alone = cpm.Codepage(read_codepage(second), box_protect=bp)
        cpm = _fresh_module()
        cpm.Codepage(read_codepage(first), box_protect=bp)
        after = cpm.Codepage(read_codepage(second), box_protect=bp)
        ref = ref_for(second)
        seqs = [bytes([c]) for c in range(256)]
        seqs += [bytes([a, b]) for a in range(256) for b in (0x20, 0x40, 0x41, 0x5c, 0x61, 0x7e, 0x80, 0xa1, 0xdf, 0xfe)]
        case0 = {'first': first, 'second': second, 'box_protect': bp}
        for k in seqs:
            part.n += 1
            case = dict(case0, bytes=k)
            ok1, u1 = _call(part, 'cross', case, alone.bytes_to_unicode, k)
            ok2, u2 = _call(part, 'cross', case, after.bytes_to_unicode, k)
            if not (ok1 and ok2):
                continue
            if u1 != u2:
                part.violation('cross/bytes-to-unicode-depends-on-earlier-page/%s' % ('dbcs' if ref.dbcs else 'sbcs'),
                               'page %s: %r -> %r when loaded alone, %r when page %s was loaded before' % (second, k, u1, u2, first), case)
                continue
            ok1, b1 = _call(part, 'cross', case, alone.unicode_to_bytes, u1)
            ok2, b2 = _call(part, 'cross', case, after.unicode_to_bytes, u1)
            if ok1 and ok2 and b1 != b2:
                part.violation('cross/unicode-to-bytes-depends-on-earlier-page/%s' % ('dbcs' if ref.dbcs else 'sbcs'),
                               'page %s: %r -> %r when loaded alone, %r when page %s was loaded before' % (second, u1, b1, b2, first), case)
        # every character of the first page, converted by the second
        for u in sorted(set(ref_for(first).nfc.values())):
            part.n += 1
            case = dict(case0, cluster=[ord(c) for c in u])
            ok1, b1 = _call(part, 'cross', case, alone.unicode_to_bytes, u)
            ok2, b2 = _call(part, 'cross', case, after.unicode_to_bytes, u)
            if ok1 and ok2 and b1 != b2:
                part.violation('cross/unicode-to-bytes-depends-on-earlier-page/%s' % ('dbcs' if ref.dbcs else 'sbcs'),
                               'page %s: U+%s -> %r when loaded alone, %r when page %s was loaded before' % (
                                   second, ','.join('%04X' % ord(c) for c in u), b1, b2, first), case)
        part.classes.add('cross/%s-after-%s' % ('dbcs' if ref.dbcs else 'sbcs', 'dbcs' if ref_for(first).dbcs else 'sbcs'))
        # one loaded definition used for two Codepage objects: the definition is the caller's and is not changed;
        # the second object converts like the first
        d = read_codepage(second)
        snapshot = dict(d)
        cpm.Codepage(d, box_protect=bp)
        if d != snapshot:
            changed = sorted(k for k in snapshot if d.get(k) != snapshot[k])[:4]
            part.violation('cross/definition-changed-by-use/%s' % ('dbcs' if ref.dbcs else 'sbcs'),
                           'building a Codepage from the definition of page %s changed the definition at %r' % (second, changed), case0)
        again = cpm.Codepage(d, box_protect=not bp)
        other = cpm.Codepage(read_codepage(second), box_protect=not bp)
        for u in sorted(set(ref.nfc.values())):
            part.n += 1
            case = dict(case0, cluster=[ord(c) for c in u], reuse=True)
            ok1, b1 = _call(part, 'cross', case, other.unicode_to_bytes, u)
            ok2, b2 = _call(part, 'cross', case, again.unicode_to_bytes, u)
            if ok1 and ok2 and b1 != b2:
                part.violation('cross/second-use-of-a-definition-differs/%s' % ('dbcs' if ref.dbcs else 'sbcs'),
                               'page %s: U+%s -> %r from a fresh definition, %r from a definition that was used before' % (
                                   second, ','.join('%04X' % ord(c) for c in u), b1, b2), case)
                break
        part.classes.add('cross/definition-reused')
    _fresh_module()
    _PAGES.clear()
    part.traces = part.n
    part.sample({'pairs': [list(x) for x in shard[:2]]})
    return part


###############################################################################
# streaming converter

PRESERVE = {'none': (), 'control': CONTROL}


def _reps(ref, preserve, per_class):
    cls = ref.byte_classes(set(preserve))
    out = []
    for sig in sorted(cls):
        out.extend(cls[sig][:per_class])
    return out, cls


def _cuts(n):
    """all ways of cutting a string of length n into non-empty chunks: tuples of chunk end positions."""
    if n == 0:
        return [()]
    out = []
    for mask in range(1 << (n - 1)):
        ends = [i + 1 for i in range(n - 1) if mask & (1 << i)] + [n]
        out.append(tuple(ends))
    return out


def _convert(conv0, s, ends):
    conv = copy.copy(conv0)
    seqs = []
    start = 0
    for e in ends:
        seqs.extend(conv._mark(s[start:e], False))
        start = e
    seqs.extend(conv._mark(b'', True))
    return seqs, conv


def check_stream(part, name, bp, pv, cp, conv0, s, cutsets, label):
    whole = None
    for ends in cutsets:
        part.n += 1
        try:
            seqs, conv = _convert(conv0, s, ends)
        except Exception as e:
            part.violation('stream/host-exception/%s' % type(e).__name__,
                           'page %s box=%s preserve=%s %r cuts %r: %r' % (name, bp, pv, s, ends, e),
                           {'page': name, 'box_protect': bp, 'preserve': pv, 'bytes': s, 'cuts': list(ends)})
            continue
        joined = b''.join(seqs)
        if joined != s or conv._buf:
            kind = 'lost' if len(joined) < len(s) else ('duplicated' if len(joined) > len(s) else 'reordered')
            if joined == s:
                kind = 'buffer-not-empty-after-flush'
            part.violation(
                'stream/%s/%s' % ('box' if bp else 'nobox', kind),
                'page %s box_protect=%s preserve=%s: %r cut at %r -> %r (concatenation %r)' % (
                    name, bp, pv, s, list(ends), seqs, joined),
                {'page': name, 'box_protect': bp, 'preserve': pv, 'bytes': s, 'cuts': list(ends)})
            part.outcome('stream:FAIL')
            continue
        if any(len(q) not in (1, 2) for q in seqs):
            part.violation('stream/sequence-length',
                           'page %s: %r -> %r has a sequence that is not 1 or 2 bytes' % (name, s, seqs),
                           {'page': name, 'box_protect': bp, 'preserve': pv, 'bytes': s, 'cuts': list(ends)})
        if whole is None:
            whole = seqs
            part.outcome('stream:ok')
        elif seqs != whole:
            part.outcome('stream:ok-but-split-depends-on-chunking')
        else:
            part.outcome('stream:ok')
    part.classes.add(label)


def work_stream(shard):
    name, bp, pv, n, per_class, first = shard
    part = Partial()
    ref = ref_for(name)
    cp = _load(name, bp)
    reps, cls = _reps(ref, PRESERVE[pv], per_class)
    sig_of = {}
    for sig, bs in cls.items():
        for b in bs:
            sig_of[b] = ''.join('PLTab'[i] if f else '-' for i, f in enumerate(sig))
    conv0 = cp.get_converter(preserve=PRESERVE[pv])
    cutsets = [_cuts(i) for i in range(n + 1)]
    firsts = [reps[first]] if first is not None else [None]
    for f in firsts:
        for length in range(0 if first in (None, 0) else 1, n + 1):
            if length == 0:
                check_stream(part, name, bp, pv, cp, conv0, b'', cutsets[0], 'empty')
                continue
            for rest in itertools.product(reps, repeat=length - 1):
                s = f + b''.join(rest)
                label = '%s/%s/%s' % ('box' if bp else 'nobox', sig_of[s[:1]],
                                      sig_of[s[1:2]] if len(s) > 1 else '')
                check_stream(part, name, bp, pv, cp, conv0, s, cutsets[length], label)
    part.traces = part.n
    part.sample({'page': name, 'box_protect': bp, 'preserve': pv, 'alphabet': reps, 'max_len': n})
    return part


###############################################################################
# converter state machine BFS

def _bfs_configs():
    out = []
    for name in page_names():
        ref = ref_for(name)
        if not ref.dbcs:
            continue
        for bp in (True, False):
            for pv in ('none', 'control'):
                out.append((name, bp, pv))
    return out


_CACHE = {}


def _conv_for(cfg):
    if cfg not in _CACHE:
        name, bp, pv = cfg
        ref = ref_for(name)
        cp = _load(name, bp)
        reps, _ = _reps(ref, PRESERVE[pv], 1)
        _CACHE[cfg] = (cp, reps)
    return _CACHE[cfg]


def expand_conv(hist):
    """hist = (cfg, byte, byte, ...): feed the bytes one by one to a fresh converter."""
    cfg = tuple(hist[0])
    fed = b''.join(hist[1:])
    cp, reps = _conv_for(cfg)
    conv = cp.get_converter(preserve=PRESERVE[cfg[2]])
    emitted = b''
    for b in hist[1:]:
        emitted += b''.join(conv._mark(b, False))
    out = []
    for b in reps:
        c2 = copy.copy(conv)
        viols = []
        try:
            seqs = c2._mark(b, False)
        except Exception as e:
            out.append((b, None, [('bfs/host-exception/%s' % type(e).__name__,
                                   'cfg %r fed %r then %r: %r' % (cfg, fed, b, e))], 'exc'))
            continue
        em2 = emitted + b''.join(seqs)
        if em2 + c2._buf != fed + b:
            viols.append(('bfs/%s/conservation' % ('box' if cfg[1] else 'nobox'),
                          'cfg %r: fed %r, emitted %r + buffered %r' % (cfg, fed + b, em2, c2._buf)))
        if len(c2._buf) > 2:
            viols.append(('bfs/buffer-overlong', 'cfg %r: fed %r, buffer %r' % (cfg, fed + b, c2._buf)))
        c3 = copy.copy(c2)
        try:
            rest = b''.join(c3._mark(b'', True))
            if em2 + rest != fed + b or c3._buf:
                viols.append(('bfs/%s/flush' % ('box' if cfg[1] else 'nobox'),
                              'cfg %r: fed %r, emitted %r, flush gave %r, buffer left %r' % (
                                  cfg, fed + b, em2, rest, c3._buf)))
        except Exception as e:
            viols.append(('bfs/host-exception/%s' % type(e).__name__, 'cfg %r flush after %r: %r' % (cfg, fed + b, e)))
        key = (cfg, c2._buf, c2._bset, c2._last)
        info = '%s/%s/%s/buf%d/bset%d/last%d' % (cfg[0], 'box' if cfg[1] else 'nobox', cfg[2],
                                                 len(c2._buf), c2._bset, len(c2._last))
        out.append((b, key, viols, info))
    return out


def work_bfs(shard):
    part = Partial()
    cfgs = _bfs_configs()
    for cfg in cfgs:
        cp, reps = _conv_for(cfg)
        conv = cp.get_converter(preserve=PRESERVE[cfg[2]])
        for attr in ('_buf', '_bset', '_last', '_mark'):
            if not hasattr(conv, attr):
                raise CheckError('C41: Converter.%s missing' % attr)
    res = bfs.explore(expand_conv, [(cfg,) for cfg in cfgs], shard, part,
                      label='conv')
    part.sample({'levels': res['levels'], 'fixed_point': res['fixed_point']})
    if not res['fixed_point']:
        part.add('conv_unexpanded', res['unexpanded_frontier'])
    return part


###############################################################################

def legs(ctx):
    names = page_names()
    if len(names) < 40:
        raise CheckError('C41: only %d codepages found' % len(names))
    out = [Leg('tables', [(n, bp) for n in names for bp in (True, False)], work_tables, exhaustive=True,
               bound='all %d shipped codepages x box_protect on/off: every repertoire cluster, every single '
                     'byte, every lead x trail pair' % len(names))]
    dbcs = [n for n in names if ref_for(n).dbcs]
    shards = []
    if ctx.quick:
        plan = [(3, 2), (4, 1)]
    else:
        plan = [(4, 2), (5, 1)]
    nsyms = {}
    for name in dbcs:
        ref = ref_for(name)
        for pv in PRESERVE:
            for n, per in plan:
                reps, _ = _reps(ref, PRESERVE[pv], per)
                nsyms[(name, pv, per)] = len(reps)
                for bp in (True, False):
                    for first in range(len(reps)):
                        shards.append((name, bp, pv, n, per, first))
    out.append(Leg('stream', shards, work_stream, exhaustive=True,
                   bound='%d DBCS pages x box_protect x preserve {none, control}: all byte strings of length '
                         '<= %d over 2 representatives per byte class and length <= %d over 1 representative '
                         '(%d-%d classes per page) x all 2^(n-1) chunkings + flush' % (
                             len(dbcs), plan[0][0], plan[1][0],
                             min(v for (a, b, p), v in nsyms.items() if p == 1),
                             max(v for (a, b, p), v in nsyms.items() if p == 1))))
    special = dbcs + [n for n in names if ref_for(n).subst and n not in dbcs]
    targets = dbcs + [n for n in ('437', '850', '1258', 'mazovia') if n in names]
    if not ctx.quick:
        targets = names
    pairs = [(a, b, bp) for a in special for b in targets if a != b for bp in ((True,) if ctx.quick else (True, False))]
    out.append(Leg('cross', list(chunked(pairs, 4)), work_cross, exhaustive=True,
                   bound='%d ordered pairs (page loaded first: the %d pages with lead bytes or substitutes; page under test: %s): every '
                         'single byte, 2560 byte pairs and every character of the first page convert as when the page is '
                         'loaded alone in a fresh module' % (len(pairs), len(special), 'the DBCS pages + 4 SBCS pages' if ctx.quick else 'all pages')))
    out.append(Leg('bfs', [12], work_bfs, exhaustive=True, serial=True,
                   bound='converter state machine of every DBCS page x box_protect x preserve set over one '
                         'representative per byte class, BFS to a fixed point (depth cap 12)'))
    return out


def replay(ctx, leg, case):
    part = Partial()
    if 'history' in case:
        hist = case['history']
        cfg = tuple(hist[0])
        h = (cfg,) + tuple(hist[1:-1])
        for op, key, viols, info in expand_conv(h):
            if op == hist[-1]:
                for k, w in viols:
                    part.violation(k, w, case)
        return part
    if 'cuts' in case:
        name, bp, pv = case['page'], case['box_protect'], case['preserve']
        cp = _load(name, bp)
        conv0 = cp.get_converter(preserve=PRESERVE[pv])
        check_stream(part, name, bp, pv, cp, conv0, case['bytes'], [tuple(case['cuts'])], 'replay')
        return part
    # tables: re-run the page and keep the violations of this case class
    sub = work_tables((case['page'], case['box_protect']))
    for k, w, c in sub.viol:
        if c.get('bytes') == case.get('bytes') and c.get('cluster') == case.get('cluster'):
            part.violation(k, w, c)
    return part
