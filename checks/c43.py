"""
C43 - Session API values round-trip.

E1 (domain enumeration on real Sessions, public API only):
  int      : ALL 65536 integers through set_variable/get_variable on I%, S!, D#; bool
  str      : all 256 one-byte and (thorough) all 65536 two-byte byte strings; lengths 0/1/254/255;
             every character of codepages 437, 932, 949 (parsed from the .ucp tables by the
             check itself) as a unicode string -> stored bytes and unicode read-back
  float    : every binary exponent of the MBF range x rounding-critical mantissa patterns x sign:
             24-bit values into S! and D# (exact), 53-bit values into D# (exact) and S!
             (within single precision); decimal constants
  evaluate : Session.evaluate(expr) against the text PRINT expr shows, for every expression
             tree with <= 2 operators over fixed atom / operator / function alphabets
  arrays   : ALL nested-list shapes with 1..3 dimensions and extents 1..3 for % ! # $ under
             OPTION BASE unset/0/1, into a matching DIMensioned array (exact) and into an
             undimensioned one (leading block)
"""
import io
import os
import math
import struct
import unicodedata
from fractions import Fraction
from itertools import product

from mc.core import Leg, Partial, CheckError, chunked

PROPERTY = 'C43'
ENGINE = 'E1 domain'
LEVEL = 'model_checking'
LEVEL_TEXT = (
    'Bounded exhaustive enumeration through the public Session API: the complete 16-bit integer '
    'domain; all 1-byte (and, thorough, all 2-byte) strings and every character of three codepage '
    'tables (437, 932, 949: ~24000 characters); every exponent of the float range with '
    'rounding-critical mantissa patterns; every expression tree with at most two operators over '
    'fixed alphabets compared with what PRINT shows; every nested-list shape up to 3x3x3 for all '
    'four types and all OPTION BASE settings.')
LEVEL_NOTE = (
    'Trusted: Python float/int arithmetic, the .ucp tables as the definition of "codepage character", '
    'the parser of PRINT output in this check. Mantissa patterns and expression alphabets are '
    'fixed finite sets, not the full domains.')
TECHNIQUE = ('bounded exhaustive enumeration of API inputs (full integer domain, codepage tables, '
             'structured float sets, bounded expression grammar, nested-list shapes) on real Sessions '
             'against Python equality / type precision')
RULE = ('product of the fixed alphabets per leg; a case class is (leg, type or operator, outcome kind); '
        'non-trivial = everything except a positive in-range integer round trip')
ASSUMPTIONS = [
    'float precision: a value stored in a single may differ from the Python float by < 2^-23 relative '
    '(one unit in the last place: truncation is accepted), in a double by < 2^-52 relative',
    'out-of-range values (integers beyond 16 bits, floats beyond 1.7E38, strings over 255) are outside '
    'the statement: outcomes are recorded, not judged',
    'codepage characters in the control range (00-1F, 7F) may read back either as the glyph of the '
    'table or as the control character; a unicode character that the table assigns to several code '
    'points may be stored as any of them; a single-byte character whose code is also a DBCS lead '
    'byte is not followed by another character (the byte encoding itself is ambiguous there)',
    'PRINT shows 7 significant digits for singles and 16 for doubles: evaluate() must equal the '
    'printed number within ONE unit of the last digit of either format (the number-to-text '
    'conversion is not correctly rounded in the last place - that is C07\'s subject - and the check '
    'does not decide which of the two formats applies); soft errors (Overflow / Division by zero '
    'messages) must appear for both or neither',
    'an undimensioned array set from a list is dimensioned 0..10 as BASIC does (documented in '
    'tests/unit/test_session.py): the list must be the leading block, everything else default',
    'element [i][j] of the nested list is element (base+i, base+j) of the BASIC array',
]


def _H():
    from mc import harness
    return harness


def _guard(part, key, case, fn, *args, **kw):
    """Call an API function; a non-BASIC exception from pcbasic -> violation."""
    from mc import core
    try:
        return True, fn(*args, **kw)
    except Exception as e:
        from pcbasic.basic.base import error
        if isinstance(e, error.BASICError):
            return False, e
        if not core.from_pcbasic(e):
            raise
        part.violation('%s/host-exception/%s' % (key, _H().exc_key(e)), repr(e), case)
        return False, None


# ---------------------------------------------------------------------------
# int

def work_int(shard):
    lo, hi = shard
    H = _H()
    part = Partial()
    s = H.new_session()
    for v in range(lo, hi):
        for name in ('I%', 'S!', 'D#'):
            case = {'name': name, 'value': v}
            ok, res = _guard(part, 'int/' + name[-1], case, s.set_variable, name, v)
            part.n += 1
            if not ok:
                part.violation('int/%s/in-range-refused' % name[-1],
                               'set_variable(%s, %d) failed: %r' % (name, v, res), case)
                continue
            got = s.get_variable(name)
            bad = got != v or (name == 'I%' and type(got) is not int)
            if bad:
                part.violation('int/%s/%s' % (name[-1], 'negative' if v < 0 else 'non-negative'),
                               'set_variable(%s, %d) reads back %r' % (name, v, got),
                               {'name': name, 'value': v})
        part.classes.add('int/%s' % ('neg' if v < 0 else 'zero' if v == 0 else 'pos'))
    if lo <= 0 < hi:
        # bool, and out-of-range (recorded only)
        for b in (True, False):
            s.set_variable('I%', b)
            g1, g2 = s.get_variable('I%'), s.get_variable('I%', as_type=bool)
            part.n += 1
            if g1 != (-1 if b else 0) or g2 is not b:
                part.violation('bool/%s' % b, 'set %r reads %r / as bool %r' % (b, g1, g2), {'bool': b})
            part.classes.add('bool/%s' % b)
        for v in (32768, -32769, 65535, 65536, 10 ** 10):
            s.set_variable('I%', 123)
            ok, res = _guard(part, 'int/out-of-range', {'value': v}, s.set_variable, 'I%', v)
            part.n += 1
            part.outcome('int-out-of-range:%s' % ('accepted' if ok else type(res).__name__))
    part.traces = part.n
    part.sample({'int_range': [lo, hi]})
    return part


# ---------------------------------------------------------------------------
# str

def read_ucp(name):
    """Parse a .ucp table (independently of pcbasic's loader): {bytes: unicode}."""
    import pcbasic
    path = os.path.join(os.path.dirname(pcbasic.__file__), 'data', 'codepages', name + '.ucp')
    table = {}
    with open(path, 'rb') as f:
        for line in f:
            line = line.split(b'#')[0].strip()
            if b':' not in line:
                continue
            k, v = line.split(b':', 1)
            try:
                cp = bytes.fromhex(k.strip().decode('ascii'))
                u = ''.join(chr(int(x.strip(), 16)) for x in v.split(b','))
            except ValueError:
                continue
            table[cp] = unicodedata.normalize('NFC', u)
    if len(table) < 128:
        raise CheckError('cannot parse codepage table %s' % path)
    return table


def work_str_bytes(shard):
    kind, lo, hi = shard
    H = _H()
    part = Partial()
    s = H.new_session()
    if kind == 'one':
        vals = [bytes([b]) for b in range(256)]
        vals += [b'', b'x' * 254, bytes(range(1, 255)), b'y' * 255, bytes(range(1, 256)),
                 bytes(range(255, 0, -1))]
    else:
        vals = [bytes([a, b]) for a in range(lo, hi) for b in range(256)]
    for v in vals:
        ok, _ = _guard(part, 'str/bytes', {'value': v}, s.set_variable, 'A$', v)
        got = s.get_variable('A$') if ok else None
        part.n += 1
        if got != v:
            part.violation('str/bytes/len%s' % (len(v) if len(v) < 3 else 'long'),
                           'set_variable(A$, %r) reads back %r' % (v, got), {'value': v})
        part.classes.add('str/bytes/len%s' % (len(v) if len(v) < 3 else 'long'))
        if kind == 'one' and ok:
            # the value stays what was set while the session is used for something else
            ok2, _ = _guard(part, 'str/evaluate-other', {'value': v}, s.evaluate, 'LEN("ab"+"c")')
            ok3, ev = _guard(part, 'str/evaluate-itself', {'value': v}, s.evaluate, 'A$')
            ok4, _ = _guard(part, 'str/set-other', {'value': v}, s.set_variable, 'B$', b'other!')
            ok5, again = _guard(part, 'str/get-again', {'value': v}, s.get_variable, 'A$')
            part.n += 1
            if ok3 and ev != v:
                part.violation('str/bytes/evaluate-after-set', 'set_variable(A$, %r), evaluate(LEN(..)): evaluate(A$) gives %r' % (
                    v, ev), {'value': v})
            elif ok5 and again != v:
                part.violation('str/bytes/changed-by-later-use', 'set_variable(A$, %r), two evaluations, set_variable(B$): '
                               'get_variable(A$) gives %r' % (v, again), {'value': v})
            part.classes.add('str/bytes/kept-during-later-use')
    if kind == 'one':
        ok, res = _guard(part, 'str/too-long', {}, s.set_variable, 'A$', b'z' * 256)
        part.outcome('str-256:%s' % ('accepted' if ok else type(res).__name__))
    part.traces = part.n
    part.sample({'str_bytes': [kind, lo, hi]})
    return part


CODEPAGES = ('437', '932', '949')


def _session_cp(name):
    H = _H()
    if name == '437':
        return H.new_session()
    from pcbasic.data import read_codepage
    return H.new_session(codepage=read_codepage(name))


def work_str_unicode(shard):
    cpname, lo, hi = shard
    part = Partial()
    table = read_ucp(cpname)
    reverse = {}
    for cp, u in table.items():
        reverse.setdefault(u, set()).add(cp)
    s = _session_cp(cpname)
    leads = {cp[:1] for cp in table if len(cp) == 2}
    keys = sorted(table)[lo:hi]
    for cp in keys:
        u = table[cp]
        if len(cp) == 1 and 0x20 <= cp[0] <= 0x7e:
            # printable ASCII is never redefined by a codepage (the table gives a glyph substitute)
            u = chr(cp[0])
            accept_bytes = {cp}
        else:
            accept_bytes = set(reverse[u])
        if u == '\0' and cp != b'\0':
            continue        # undefined code point
        control = len(cp) == 1 and (cp[0] < 0x20 or cp[0] == 0x7f)
        case = {'codepage': cpname, 'cp': cp, 'unicode': u}
        kind = 'dbcs' if len(cp) == 2 else ('control' if control else ('ascii' if cp[0] < 0x80 else 'high'))
        # a single-byte character whose code is also a DBCS lead byte is inherently ambiguous
        # when a possible trail byte follows: test it alone and after a letter only
        contexts = (('', ''), ('a', '')) if cp in leads else (('', ''), ('a', 'b'))
        for pre, post in contexts:
            text = pre + u + post
            ok, _ = _guard(part, 'str/unicode', case, s.set_variable, 'A$', text)
            if not ok:
                continue
            gb = s.get_variable('A$')
            ok, gu = _guard(part, 'str/unicode', case, s.get_variable, 'A$', as_type=str)
            part.n += 1
            want_b = {pre.encode() + b + post.encode() for b in accept_bytes}
            if gb not in want_b:
                part.violation('str/unicode/%s/%s/stored-bytes' % (cpname, kind),
                               'set_variable(A$, %r) stores %r, codepage %s says %r' % (
                                   text, gb, cpname, sorted(want_b)), case)
            want_u = {text}
            if control:
                want_u.add(pre + chr(cp[0]) + post)
            if ok and unicodedata.normalize('NFC', gu) not in want_u:
                part.violation('str/unicode/%s/%s/read-back' % (cpname, kind),
                               'set_variable(A$, %r) reads back %r' % (text, gu), case)
        part.classes.add('str/unicode/%s/%s' % (cpname, kind))
    part.traces = part.n
    part.sample({'codepage': cpname, 'range': [lo, hi]})
    return part


# ---------------------------------------------------------------------------
# float

def patterns(nbits):
    """Rounding-critical mantissas with the top bit set, nbits wide."""
    full = (1 << nbits) - 1
    top = 1 << (nbits - 1)
    s = {0, full}
    for k in range(nbits):
        s.add(1 << k)
        s.add(full ^ (1 << k))
        s.add((1 << k) - 1)
        s.add(full ^ ((1 << k) - 1))
    for b in (0x55, 0xaa, 0x81, 0x7f, 0x80, 0xff, 0x01):
        s.add(b)
        s.add((b << (nbits - 8)) & full)
    s.add(int('c90fdaa22168c234c4c6628b80dc1cd1'[:(nbits + 3) // 4], 16) >> ((-nbits) % 4))
    s.add(int('b504f333f9de6484597d89b3754abe9f'[:(nbits + 3) // 4], 16) >> ((-nbits) % 4))
    s.add(int('5' * ((nbits + 3) // 4), 16) & full)
    return sorted((m | top) & full for m in s)


DECIMALS = [0.1, 0.2, 0.3, 1 / 3.0, 2 / 3.0, 1.1, 3.14159265358979, 2.718281828459045, 1e-5, 1e5, 1e10,
            1e-10, 1e20, 1e-20, 1e37, 1e-37, 1.7e38, 3e-39, 123456.789, 0.999999, 0.9999999999999999,
            16777216.0, 16777217.0, 33554431.0, 4503599627370497.0, 9007199254740991.0, 65535.5, 0.5,
            1.0000001, 1.0000000000000002]


def _check_float(part, s, x, nbits):
    case = {'value': x.hex(), 'nbits': nbits}
    for name, tol in (('S!', Fraction(1, 1 << 23)), ('D#', Fraction(1, 1 << 52))):
        ok, _ = _guard(part, 'float/' + name[-1], case, s.set_variable, name, x)
        if not ok:
            part.violation('float/%s/in-range-refused' % name[-1], 'set_variable(%s, %r) failed' % (name, x), case)
            continue
        got = s.get_variable(name)
        part.n += 1
        exact_expected = (name == 'D#') or nbits <= 24
        cls = 'float/%s/%s' % (name[-1], 'exact' if exact_expected else 'rounded')
        part.classes.add(cls + ('/neg' if x < 0 else '/pos'))
        if not isinstance(got, float):
            part.violation(cls + '/type', 'get_variable(%s) is %r' % (name, got), case)
            continue
        if exact_expected:
            if got != x:
                part.violation(cls + '/not-exact',
                               'set_variable(%s, %r) reads back %r (the value is exactly representable)' % (
                                   name, x, got), case)
        else:
            err = abs(Fraction(got) - Fraction(x))
            if err >= tol * abs(Fraction(x)):
                part.violation(cls + '/beyond-precision',
                               'set_variable(%s, %r) reads back %r: relative error %.3g' % (
                                   name, x, got, float(err / abs(Fraction(x)))), case)


def work_float(shard):
    kind, lo, hi = shard
    H = _H()
    part = Partial()
    s = H.new_session()
    if kind == 'decimals':
        for x in DECIMALS:
            for sg in (1, -1):
                _check_float(part, s, sg * x, 53)
        for x in (0.0, -0.0):
            for name in ('S!', 'D#'):
                s.set_variable(name, 1.5)
                s.set_variable(name, x)
                part.n += 1
                if s.get_variable(name) != 0:
                    part.violation('float/%s/zero' % name[-1], 'zero reads back %r' % s.get_variable(name), {})
        for x in (1e39, -1e39, 1e300, float('inf'), float('nan'), 1e-40, 5e-324):
            # outside the statement: recorded, never judged
            try:
                s.set_variable('S!', x)
                res = 'accepted'
            except Exception as e:
                res = type(e).__name__
            part.outcome('float-out-of-range:%r:%s' % (x, res))
    else:
        nbits = 24 if kind == 'm24' else 53
        pats = patterns(nbits)
        for e in range(lo, hi):
            # value = 0.1mmm x 2^e  in [2^(e-1), 2^e): MBF holds e in -127..127
            for m in pats:
                x = math.ldexp(m, e - nbits)
                _check_float(part, s, x, nbits)
                _check_float(part, s, -x, nbits)
    part.traces = part.n
    part.sample({'float': [kind, lo, hi]})
    return part


# ---------------------------------------------------------------------------
# evaluate vs PRINT

NUM_ATOMS_Q = ['0', '2', '-1', '7', '32767', '.5', '1E10', '.1#']
NUM_ATOMS_T = NUM_ATOMS_Q + ['255', '-32768', '3.3', '1.5#', '65535', '1D-5']
BIN_Q = ['+', '-', '*', '/', '\\', 'MOD', '^', 'AND', 'OR', '=', '<', '>=']
BIN_T = BIN_Q + ['XOR', 'EQV', 'IMP', '<>', '>', '<=']
UN = ['-', 'NOT ']
NUM_FUNCS = ['ABS(%s)', 'INT(%s)', 'FIX(%s)', 'SGN(%s)', 'SQR(%s)', 'CINT(%s)', 'CSNG(%s)', 'CDBL(%s)',
             'LEN(STR$(%s))', 'STR$(%s)', 'HEX$(%s)', 'OCT$(%s)', 'CHR$(%s)', 'SPACE$(%s)', 'MKI$(%s)',
             'MKS$(%s)', 'CVS(MKS$(%s))', 'VAL(STR$(%s))', 'LOG(%s)', 'EXP(%s)', 'ATN(%s)']
STR_ATOMS = ['"a"', '"bc"', '""', 'CHR$(65)', '"12"', '" x "']
STR_FUNCS = ['LEN(%s)', 'ASC(%s)', 'VAL(%s)', 'LEFT$(%s,1)', 'RIGHT$(%s,1)', 'MID$(%s,2)', 'STRING$(2,%s)',
             'CVI(%s+"ab")', 'INSTR("abcbc",%s)']
STR_BIN = ['+', '=', '<', '>', '<>']


def expr_family(quick):
    atoms = NUM_ATOMS_Q if quick else NUM_ATOMS_T
    ops = BIN_Q if quick else BIN_T
    out = []
    out += atoms
    out += [u + a for u in UN for a in atoms]
    out += [f % a for f in NUM_FUNCS for a in atoms]
    out += ['%s %s %s' % (a, o, b) for a in atoms for o in ops for b in atoms]
    # two operators
    deep_atoms = ['0', '-1', '7', '32767', '.5', '.1#'] if quick else NUM_ATOMS_T[:10]
    deep_ops = ['+', '*', '/', '\\', '^', 'AND', '=', '<'] if quick else BIN_T[:14]
    for a in deep_atoms:
        for b in deep_atoms:
            for c in deep_atoms:
                for o1 in deep_ops:
                    for o2 in deep_ops:
                        out.append('%s %s %s %s %s' % (a, o1, b, o2, c))
                        out.append('%s %s (%s %s %s)' % (a, o1, b, o2, c))
    out += ['%s(%s %s %s)' % (u, a, o, b) for u in UN for a in atoms for o in ops for b in atoms]
    out += ['%s%s %s %s' % (u, a, o, b) for u in UN for a in atoms for o in ops for b in atoms]
    out += [f % ('%s %s %s' % (a, o, b)) for f in NUM_FUNCS[:10] for a in atoms[:6] for o in ops[:8]
            for b in atoms[:6]]
    # strings
    out += STR_ATOMS
    out += [f % a for f in STR_FUNCS for a in STR_ATOMS]
    out += ['%s %s %s' % (a, o, b) for a in STR_ATOMS for o in STR_BIN for b in STR_ATOMS]
    out += ['%s + %s %s %s' % (a, b, o, c) for a in STR_ATOMS for b in STR_ATOMS for o in STR_BIN
            for c in STR_ATOMS]
    out += [f % ('%s + %s' % (a, b)) for f in STR_FUNCS for a in STR_ATOMS for b in STR_ATOMS]
    # mixed types (errors must agree)
    out += ['1 + "a"', '"a" + 1', 'LEN(1)', 'ABS("a")', '-"a"', 'NOT "a"', '"a" AND 1', '(', '1 +']
    return out


def _near(p, v):
    """printed number p equals v within one unit of the 7th or 16th significant digit."""
    if p == v:
        return True
    if v == 0 or math.isinf(v) or math.isnan(v) or math.isnan(p):
        return False
    mag = math.floor(math.log10(abs(v)))
    for digits in (7, 16):
        # one unit of the last digit: GW-BASIC's number-to-text conversion (C07) is not
        # correctly rounded in the last place, e.g. PRINT ATN(-1) shows -.7853982 for -.78539812...
        if abs(Fraction(p) - Fraction(v)) <= Fraction(10) ** (mag - digits + 1):
            return True
    return False


def _ev_capture(s, expr):
    out = io.BytesIO()
    s.add_pipes(output_streams=out)
    try:
        v = s.evaluate(expr)
    finally:
        s.remove_pipes(output_streams=out)
    return v, out.getvalue()


def check_expr(part, s, text):
    H = _H()
    expr = text.encode('ascii')
    case = {'expr': text}
    optag = text.split(' ')[1] if text.count(' ') >= 2 and not text.startswith('"') else text.split('(')[0][:8]
    try:
        v, vout = _ev_capture(s, expr)
    except Exception as e:
        from mc import core
        if not core.from_pcbasic(e):
            raise
        part.violation('evaluate/host-exception/%s' % H.exc_key(e), 'evaluate(%r) raised %r' % (text, e), case)
        return
    # LOCATE keeps the emulated screen from scrolling (a 10x cost); the captured text is the same
    r = H.run(s, b'LOCATE 1,1:PRINT ' + expr)
    part.n += 1
    part.traces += 2
    if r.exc is not None:
        part.violation('evaluate/print-host-exception/%s' % H.exc_key(r.exc),
                       'PRINT %s raised %r' % (text, r.exc), case)
        return
    verrs = H.parse_errors(vout)
    vhard = [e[0] for e in verrs if e[2]]
    vsoft = [e[0] for e in verrs if not e[2]]
    if r.err is not None or v is None:
        part.classes.add('evaluate/error-%s' % r.err)
        part.outcome('error')
        if (r.err is None) or (v is not None) or not vhard or vhard[-1] != r.err:
            part.violation('evaluate/error-disagrees/%s' % optag,
                           'evaluate(%r) -> %r (errors %r) but PRINT -> error %r, output %r' % (
                               text, v, vhard, r.err, r.out), case)
        return
    if sorted(vsoft) != sorted(r.soft):
        part.violation('evaluate/soft-error-disagrees/%s' % optag,
                       'evaluate(%r) reported %r, PRINT reported %r' % (text, vsoft, r.soft), case)
    lines = r.out.replace(b'\r\n', b'\n').split(b'\n')
    # drop soft error message lines
    msgs = len(r.soft)
    shown = b'\n'.join(lines[msgs:])
    if shown.endswith(b'\n'):
        shown = shown[:-1]
    if isinstance(v, bytes):
        kind = 'string'
        same = shown == v
    else:
        kind = 'int' if isinstance(v, int) else 'float'
        t = shown.strip().replace(b'D', b'E')
        try:
            p = float(t)
        except ValueError:
            p = None
        if p is None:
            same = False
        elif kind == 'int':
            same = p == v and b'.' not in t and b'E' not in t
        else:
            same = _near(p, v)
    part.classes.add('evaluate/%s%s' % (kind, '/soft' if r.soft else ''))
    part.outcome(kind)
    if not same:
        part.violation('evaluate/%s-differs/%s' % (kind, optag),
                       'evaluate(%r) = %r but PRINT shows %r' % (text, v, shown), case)


def work_eval(shard):
    H = _H()
    part = Partial()
    s = H.new_session()
    for text in shard:
        check_expr(part, s, text)
    part.sample({'expr': shard[0]})
    return part


# ---------------------------------------------------------------------------
# arrays

def unique(t, k):
    if t == '%':
        return (k + 1) if k % 2 else -(k + 1)
    if t == '!':
        return k + 0.5
    if t == '#':
        return -(k + 0.1)
    return b's%d' % k


def build(extents, t):
    counter = [0]

    def rec(ext):
        if len(ext) == 1:
            row = []
            for _ in range(ext[0]):
                # (string arrays: every third element is empty, right behind a non-empty one)
                row.append(b'' if t == '$' and counter[0] % 3 == 1 else unique(t, counter[0]))
                counter[0] += 1
            return row
        return [rec(ext[1:]) for _ in range(ext[0])]
    return rec(list(extents))


def lookup(lst, idx):
    for i in idx:
        lst = lst[i]
    return lst


def block(lst, extents):
    """Leading block of a nested list."""
    if len(extents) == 1:
        return lst[:extents[0]]
    return [block(x, extents[1:]) for x in lst[:extents[0]]]


def rest_is_default(lst, extents, t, inside=True):
    d = b'' if t == '$' else 0
    if not isinstance(lst, list):
        return inside or lst == d
    return all(rest_is_default(x, extents[1:], t, inside and i < extents[0]) for i, x in enumerate(lst))


def array_cases():
    cases = []
    for nd in (1, 2, 3):
        for ext in product((1, 2, 3), repeat=nd):
            for t in '%!#$':
                for base in (None, 0, 1):
                    for mode in ('dim', 'undim'):
                        for warm in ('cold', 'exec', 'eval'):
                            cases.append((ext, t, base, mode, warm))
    return cases


def check_array(part, case):
    ext, t, base, mode = case[:4]
    warm = case[4] if len(case) > 4 else 'cold'
    ext = tuple(ext)
    H = _H()
    s = H.new_session()
    # what the session did before: nothing, statements with expressions, an API evaluation
    if warm == 'exec':
        r = H.run(s, b'X=1:X$="w"+"x":PRINT X;X$')
        if r.err is not None or r.exc is not None:
            raise CheckError('warm-up failed: %r' % r)
    elif warm == 'eval':
        if s.evaluate(b'"a"+"b"') != b'ab':
            raise CheckError('warm-up evaluate failed')
    eff = base or 0
    name = 'A' + t
    cls = 'array/%dd/%s/base-%s/%s' % (len(ext), t, 'unset' if base is None else base, mode)
    if warm != 'cold':
        cls += '/after-' + warm
    if base is not None:
        r = H.run(s, b'OPTION BASE %d' % base)
        if r.err is not None or r.exc is not None:
            raise CheckError('OPTION BASE failed: %r' % r)
    if mode == 'dim':
        r = H.run(s, ('DIM %s(%s)' % (name, ','.join(str(e - 1 + eff) for e in ext))).encode())
        if r.err is not None or r.exc is not None:
            raise CheckError('DIM failed: %r' % r)
    value = build(ext, t)
    ok, res = _guard(part, cls, list(case), s.set_variable, name + '()', value)
    part.n += 1
    part.traces += 1
    if not ok:
        part.violation(cls + '/set-refused', 'set_variable(%s(), %r) failed: %r' % (name, value, res), list(case))
        return
    ok, got = _guard(part, cls, list(case), s.get_variable, name + '()')
    if not ok:
        part.violation(cls + '/get-refused', 'get_variable(%s()) failed: %r' % (name, got), list(case))
        return
    if mode == 'dim':
        if got != value:
            part.violation(cls + '/differs', 'set %r, read back %r' % (value, got), list(case))
    else:
        try:
            lead = block(got, ext)
            fine = lead == value and rest_is_default(got, ext, t)
        except (TypeError, IndexError):
            fine = False
        if not fine:
            part.violation(cls + '/differs',
                           'set %r into an undimensioned array, read back %r' % (value, got), list(case))
    # the BASIC array holds the same elements
    for idx in product(*[range(e) for e in ext]):
        expr = ('%s(%s)' % (name, ','.join(str(i + eff) for i in idx))).encode()
        ok, v = _guard(part, cls, list(case), s.evaluate, expr)
        part.n += 1
        if not ok:
            break
        if v != lookup(value, idx):
            part.violation(cls + '/basic-view-differs',
                           'list%s = %r but BASIC %s = %r' % (list(idx), lookup(value, idx), expr.decode(), v),
                           list(case))
            break
    # and still does after those evaluations, an unrelated assignment and a statement
    s.set_variable('B$', b's%d' % (len(ext) + 7))
    H.run(s, b'Y$="y"+"z"')
    ok, again = _guard(part, cls, list(case), s.get_variable, name + '()')
    if not ok or again != got:
        part.violation(cls + '/changed-later', 'get_variable(%s()) gave %r, after evaluating its elements %r' % (
            name, got, again), list(case))
    # ... and after string space has been collected
    ok, _f = _guard(part, cls, list(case), s.evaluate, b'FRE("")')
    ok, again = _guard(part, cls, list(case), s.get_variable, name + '()')
    if not ok or again != got:
        part.violation(cls + '/changed-by-collection', 'get_variable(%s()) gave %r, after FRE("") %r' % (name, got, again), list(case))
    part.classes.add(cls)


def work_arrays(shard):
    part = Partial()
    for case in shard:
        check_array(part, case)
    part.sample({'array': list(shard[0])})
    return part


# ---------------------------------------------------------------------------
# tight memory: a value set through the API while memory is nearly full is stored intact or refused

def work_tight(shard):
    H = _H()
    part = Partial()
    for free, length, kind in shard:
        case = {'free': free, 'length': length, 'kind': kind}
        s = H.new_session()
        f0 = s.evaluate(b'FRE(0)')
        r = H.run(s, b'CLEAR ,%d' % (65534 - int(f0) + 40 + free))
        if r.err is not None or r.exc is not None:
            raise CheckError('CLEAR failed: %r' % r)
        # a string that exists already and garbage behind it, so that a collection has work to do
        r = H.run(s, b'P$="pre"+"x":G$=SPACE$(20):G$=""')
        if r.err is not None or r.exc is not None:
            raise CheckError('set-up failed: %r' % r)
        r = H.run(s, b'Q$=SPACE$(FRE(0)-%d)' % free)
        f1 = int(s.evaluate(b'FRE(0)'))
        value = bytes(bytearray(65 + (i % 26) for i in range(length)))
        name = {'scalar': 'N$', 'longname': 'NEWSTRINGVARIABLE$', 'array': 'NA$()'}[kind]
        cls = 'tight/%s/free%s' % (kind, 'lt' if f1 < length + 4 else 'ge')
        ok, res = _guard(part, cls, case, s.set_variable, name, [value, b'z'] if kind == 'array' else value)
        part.n += 1
        part.traces += 1
        if ok:
            okg, got = _guard(part, cls, case, s.get_variable, name)
            want = value
            if kind == 'array':
                got = got[0] if okg and got else got
            if okg and got != want:
                part.violation(cls + '/stored-value-differs', 'with %d bytes free set_variable(%s, %r) succeeded but reads back %r' % (
                    f1, name, value, got), case)
            part.outcome('tight:stored')
        else:
            part.outcome('tight:refused')
        # whatever happened: the other variables are intact and a collection works
        okp, pre = _guard(part, cls, case, s.get_variable, 'P$')
        if okp and pre != b'prex':
            part.violation(cls + '/other-variable-changed', 'P$ reads %r after set_variable(%s) with %d bytes free' % (pre, name, f1), case)
        okf, _fre = _guard(part, cls, case, s.evaluate, b'FRE("")')
        if ok:
            okg, got = _guard(part, cls, case, s.get_variable, name)
            if kind == 'array':
                got = got[0] if okg and got else got
            if okg and got != value:
                part.violation(cls + '/value-lost-in-collection', 'after FRE("") %s reads back %r, set %r' % (name, got, value), case)
        # a refused value has taken nothing: after a collection at least as much memory is free as before, and
        # small values still make the round trip when they fit
        okf, f2 = _guard(part, cls, case, s.evaluate, b'FRE("")')
        exists = False
        taken = 0
        if not ok and kind == 'array':
            # (the array itself may have been dimensioned 0..10 before an element was refused, and the elements before
            # the refused one are assigned one by one as BASIC statements would: that memory is accounted for, if the
            # array is there and holds them)
            okx, arr = _guard(part, cls, case, s.get_variable, name)
            exists = bool(okx and arr is not None and len(arr) == 11)
            if exists:
                taken = 48 + sum(len(x) for x in arr)
                if any(x not in (b'', value, b'z') for x in arr):
                    part.violation(cls + '/refused-array-holds-foreign-value', 'after the refused set_variable(%s) the array reads %r' % (
                        name, arr), case)
        if okf and f2 is None:
            part.violation(cls + '/free-memory-cannot-be-evaluated', 'after the %s set_variable(%s) with %d bytes free FRE("") cannot be evaluated' % (
                'stored' if ok else 'refused', name, f1), case)
        if not ok and okf and f2 is not None and f2 < f1 - taken:
            part.violation(cls + '/memory-lost-by-refused-value',
                           'with %d bytes free set_variable(%s) was refused; afterwards FRE("") is %r' % (f1, name, f2), case)
        if okf and f2 is not None and f2 >= 16:
            for nm, val in (('R$', b'ab'), ('I%', 7)):
                oks, _ = _guard(part, cls, case, s.set_variable, nm, val)
                okg, got = _guard(part, cls, case, s.get_variable, nm)
                if not oks or not okg or got != val:
                    part.violation(cls + '/later-round-trip-fails', 'after the %s set_variable(%s) and with %r bytes free: set_variable(%s, %r) then get_variable gives %r' % (
                        'stored' if ok else 'refused', name, f2, nm, val, got if okg else 'an error'), case)
                    break
        part.classes.add(cls)
        s.close()
    part.sample({'tight': list(shard[0])})
    return part


# ---------------------------------------------------------------------------
# variable names are case-insensitive at the API as they are in BASIC

NAME_SPELLINGS = [('a%', 7), ('Ab$', b'str'), ('x!', 1.5), ('dd#', 2.25),
                  ('a%()', [1, 2, 3]), ('mat!()', [0.5, 1.5]), ('Mat#()', [2.0, 4.0, 6.0]), ('nm$()', [b'p', b'', b'qr'])]


def _spellings(name):
    return sorted({name, name.upper(), name.lower(), name.capitalize(), name.swapcase()})


def work_names(shard):
    H = _H()
    part = Partial()
    for name, value in shard:
        for sp_set in _spellings(name):
            for sp_get in _spellings(name):
                s = H.new_session()
                case = {'name': name, 'set_as': sp_set, 'get_as': sp_get}
                try:
                    part.n += 1
                    part.traces += 1
                    ok, _ = _guard(part, 'names/set', case, s.set_variable, sp_set, value)
                    if not ok:
                        part.violation('names/set-refused', 'set_variable(%r, %r) is refused' % (sp_set, value), case)
                        continue
                    ok, got = _guard(part, 'names/get', case, s.get_variable, sp_get)
                    isarr = name.endswith('()')
                    if isarr and ok and got is not None:
                        got = list(got)[:len(value)]
                        if value and isinstance(value[0], bytes):
                            got = [bytes(x) for x in got]
                    elif ok and isinstance(value, bytes) and got is not None:
                        got = bytes(got)
                    if not ok or got != value:
                        part.violation('names/%s/value-not-found-under-other-spelling' % ('array' if isarr else 'scalar'),
                                       'set_variable(%r, %r) then get_variable(%r) gives %r' % (sp_set, value, sp_get, got if ok else 'an error'), case)
                        continue
                    # ... and it is the variable BASIC knows under that name
                    expr = (name[:-2].upper() + '(1)') if isarr else name.upper()
                    ok, ev = _guard(part, 'names/evaluate', case, s.evaluate, expr)
                    want = value[1] if isarr else value
                    if isinstance(want, bytes) and ev is not None:
                        ev = bytes(ev)
                    if ok and ev != want:
                        part.violation('names/%s/not-the-basic-variable' % ('array' if isarr else 'scalar'),
                                       'set_variable(%r, %r) then evaluate(%r) gives %r' % (sp_set, value, expr, ev), case)
                    part.classes.add('names/%s/%s' % ('array' if isarr else 'scalar', name[-3:].strip('()') if isarr else name[-1:]))
                finally:
                    s.close()
    part.sample({'names': [n for n, _v in shard]})
    return part


def legs(ctx):
    out = []
    out.append(Leg('names', [[nv] for nv in NAME_SPELLINGS], work_names, exhaustive=True,
                   bound='%d variables (scalars and arrays of the four types) set under every '
                         'capitalisation (as written, upper, lower, capitalised, swapped) and read under every capitalisation, then '
                         'evaluated in BASIC' % len(NAME_SPELLINGS)))
    out.append(Leg('int', [(lo, lo + 2048) for lo in range(-32768, 32768, 2048)], work_int,
                   exhaustive=True, bound='all 65536 integers x {I%, S!, D#}; True/False'))
    shards = [('one', 0, 0)]
    if not ctx.quick:
        shards += [('two', lo, lo + 8) for lo in range(0, 256, 8)]
    else:
        shards += [('two', lo, lo + 1) for lo in (0, 1, 13, 34, 127, 128, 129, 196, 255)]
    out.append(Leg('str-bytes', shards, work_str_bytes, exhaustive=True,
                   bound='all 256 one-byte strings, lengths 0/254/255, %s two-byte strings' % (
                       'all 65536' if not ctx.quick else '9 x 256 (first byte in a boundary set)')))
    shards = []
    for cpname in CODEPAGES:
        n = len(read_ucp(cpname))
        step = 400
        shards += [(cpname, lo, lo + step) for lo in range(0, n, step)]
    out.append(Leg('str-unicode', shards, work_str_unicode, exhaustive=True,
                   bound='every character of codepages 437, 932, 949 (%s entries), alone and between '
                         'ASCII letters' % '+'.join(str(len(read_ucp(c))) for c in CODEPAGES)))
    estep = 8
    shards = [('decimals', 0, 0)]
    shards += [('m24', lo, min(lo + estep, 128)) for lo in range(-126, 128, estep)]
    shards += [('m53', lo, min(lo + estep, 128)) for lo in range(-126, 128, estep)]
    out.append(Leg('float', shards, work_float, exhaustive=True,
                   bound='every binary exponent -126..127 x %d 24-bit and %d 53-bit mantissa patterns x '
                         'sign, into S! and D#; %d decimal constants' % (
                             len(patterns(24)), len(patterns(53)), len(DECIMALS))))
    fam = expr_family(ctx.quick)
    out.append(Leg('evaluate', list(chunked(fam, 400)), work_eval, exhaustive=True,
                   bound='%d expressions: every tree with <= 2 operators over %d numeric atoms x %d binary '
                         'operators (+ unary -, NOT, %d functions), and the string counterparts' % (
                             len(fam), len(NUM_ATOMS_Q if ctx.quick else NUM_ATOMS_T),
                             len(BIN_Q if ctx.quick else BIN_T), len(NUM_FUNCS) + len(STR_FUNCS))))
    ac = array_cases()
    out.append(Leg('arrays', list(chunked(ac, 24)), work_arrays, exhaustive=True,
                   bound='all %d = 39 shapes (1-3 dims, extents 1-3) x 4 types x 3 OPTION BASE settings x '
                         '{dimensioned, undimensioned}' % len(ac)))
    tc = [(free, length, kind) for kind in ('scalar', 'longname', 'array') for length in ((1, 7, 12) if ctx.quick else (1, 3, 7, 12, 23, 60))
          for free in range(0, 40 if ctx.quick else 90)]
    out.append(Leg('tight', list(chunked(tc, 30)), work_tight, exhaustive=True,
                   bound='new string scalar (short and long name) and string array set through the API with every amount of free '
                         'memory 0..%d bytes x %d string lengths: stored intact (also after a collection) or refused, other '
                         'variables untouched' % (39 if ctx.quick else 89, 3 if ctx.quick else 6)))
    return out


def _replay_names(case):
    for name, value in NAME_SPELLINGS:
        if name == case['name']:
            part = work_names([(name, value)])
            part.viol = [v for v in part.viol if v[2].get('set_as') == case['set_as'] and v[2].get('get_as') == case['get_as']]
            return part
    return Partial()


def replay(ctx, leg, case):
    if leg == 'names':
        return _replay_names(case)
    H = _H()
    part = Partial()
    if leg == 'tight':
        return work_tight([(case['free'], case['length'], case['kind'])])
    if leg == 'int':
        v = case.get('value', 0)
        return work_int((v, v + 1))
    if leg == 'str-bytes':
        s = H.new_session()
        v = case['value']
        s.set_variable('A$', v)
        got = s.get_variable('A$')
        if got != v:
            part.violation('str/bytes/len%s' % (len(v) if len(v) < 3 else 'long'), 'reads back %r' % got, case)
        return part
    if leg == 'str-unicode':
        table = sorted(read_ucp(case['codepage']))
        i = table.index(case['cp'])
        return work_str_unicode((case['codepage'], i, i + 1))
    if leg == 'float':
        s = H.new_session()
        _check_float(part, s, float.fromhex(case['value']), case.get('nbits', 24))
        return part
    if leg == 'evaluate':
        check_expr(part, H.new_session(), case['expr'])
        return part
    if leg == 'arrays':
        check_array(part, (tuple(case[0]), case[1], case[2], case[3]))
        return part
    return part
