"""
C36 - the text cursor and screen content stay consistent.

E2 (history BFS on real sessions, reference = models/terminal.Term):
  every history of up to d statements over an alphabet of PRINTs of plain strings of lengths
  {1, w-1, w, w+1, 2w} with and without ';', PRINT CHR$(n); for the control codes, LOCATE to the
  corner/edge cells and out of range, CLS, VIEW PRINT 2 TO 4 / reset, WIDTH 40/80, in text 80,
  text 40, SCREEN 1 and SCREEN 2; states merged on the full text-screen state.
Checked in every state: 1 <= CSRLIN <= 25, 1 <= POS <= width; CSRLIN/POS report the cursor (the
cell where the next printed character lands, with a pending wrap reported either way);
LOCATE lands or raises Illegal function call; SCREEN(r,c) == the character in that cell;
plain PRINT inside the scroll window places its characters like the reference terminal (wrap at
the width, scrolling only inside the VIEW PRINT window, everything else unchanged).
"""
import hashlib
import logging

from mc.core import Leg, Partial, CheckError
from mc import bfs
from mc import harness as H
from models.terminal import Term

PROPERTY = 'C36'
ENGINE = 'E2 bfs'
LEVEL = 'model_checking'
LEVEL_TEXT = (
    'Explicit-state BFS over all statement histories up to depth 2 (full 40-statement alphabet) and 3 '
    '(20-statement core alphabet) in the quick tier, 3 and 4 in the thorough tier, in 4 mode '
    'configurations (text 80/40, SCREEN 1, SCREEN 2) with VIEW PRINT set/reset as operations; the real '
    'session is rebuilt by replay and compared after every statement with a non-deterministic reference '
    'terminal derived from the statement. States are merged only on the complete text-screen state.')
LEVEL_NOTE = (
    'Trusted: models/terminal.py, the hidden-state key, re-synchronisation of the reference from '
    'text_screen.current_row/current_col/overflow/scroll_area after statements the property does not specify.')
TECHNIQUE = ('bounded exhaustive exploration (BFS with exact state de-duplication) of statement histories on '
             'real sessions against a non-deterministic reference terminal and cursor invariants')
RULE = ('a case is a history of statements; a case class is (config, statement class, start-column class, '
        'window set?, outcome kind); non-trivial = the statement wrapped, scrolled, hit a margin/corner, '
        'raised an error or ran with a VIEW PRINT window')
ASSUMPTIONS = [
    'internal seam: text_screen.current_row/current_col/overflow/scroll_area/_bottom_row_allowed and '
    'VideoBuffer._rows (hidden-state key; re-synchronising the reference after unspecified statements)',
    'unspecified and therefore only checked by the invariants: control codes, CLS, VIEW PRINT, WIDTH, '
    'printing while the cursor is outside the scroll window (row 25)',
    'accepted variants (statement silent): an item that does not fit on the rest of the row may move to the '
    'next row as a whole (GW-BASIC) or wrap per character; a newline after an item ending exactly at the '
    'margin may leave an empty row; a pending wrap may be reported as (row, width) or as the next cell',
    'LOCATE to an in-screen cell may raise Illegal function call (e.g. outside the VIEW PRINT window) - '
    'the statement allows "moves or raises"; an out-of-screen cell must raise it',
    'SCREEN(r,c) raising Illegal function call for a row outside an active VIEW PRINT window is documented '
    'GW-BASIC behaviour (docs reference: SCREEN function) and accepted; any other failure is a violation',
]

logging.disable(logging.CRITICAL)

HEIGHT = 25


def _txt(n, seed):
    # position-dependent letters so that misplaced characters show
    return bytes(bytearray(65 + (seed + i) % 26 for i in range(n)))


def make_ops(w, full):
    """-> list of (statement bytes, spec)."""
    ops = []
    if full in ('modes', 'modesv'):
        # small alphabet around mode / width changes and the scroll window, for deeper histories
        t1, t2 = _txt(1, 0), _txt(w + 1, 9)
        return [(b'PRINT "%s"' % t1, ('P', t1, True)), (b'PRINT "%s";' % t2, ('P', t2, False)),
                (b'PRINT CHR$(10);', ('C', 10)),
                (b'LOCATE 25,1', ('L', 25, 1)), (b'LOCATE 24,%d' % w, ('L', 24, w)), (b'LOCATE 3,1', ('L', 3, 1)),
                (b'CLS', ('S', 'CLS')), (b'VIEW PRINT 2 TO 4', ('V', 2, 4)), (b'VIEW PRINT', ('V', None, None)),
                (b'VIEW PRINT 4 TO 2', ('V', 4, 2)),
                (b'WIDTH 40', ('S', 'WIDTH')), (b'WIDTH 80', ('S', 'WIDTH'))] + (
                    # the default rows written out: a window all the same (the bottom row stays outside it)
                    [(b'VIEW PRINT 1 TO 24', ('V', 1, 24))] if full == 'modesv' else [])
    lens = (1, w - 1, w, w + 1, 2 * w) if full else (1, w - 1, w, w + 1)
    for i, n in enumerate(lens):
        for nl in ((False, True) if full or n in (1, w, w + 1) else (False,)):
            t = _txt(n, 3 * i + (7 if nl else 0))
            if n <= 8:
                st = b'PRINT "%s"%s' % (t, b'' if nl else b';')
            else:
                # build the same string without a 2w-character literal: pattern via a loop-free expression
                st = b'PRINT "%s"%s' % (t, b'' if nl else b';')
            ops.append((st, ('P', t, nl)))
    codes = (7, 8, 9, 10, 11, 12, 13, 28, 29, 30, 31) if full else (10, 11, 13, 28, 31)
    for code in codes:
        ops.append((b'PRINT CHR$(%d);' % code, ('C', code)))
    if full:
        cells = [(r, c) for r in (1, 12, 24) for c in (1, w // 2, w)] + [(25, 1), (0, 1), (26, 1), (1, 0), (1, w + 1)]
    else:
        cells = [(1, 1), (24, w), (4, w), (2, 1), (25, 1)]
    for r, c in cells:
        ops.append((b'LOCATE %d,%d' % (r, c), ('L', r, c)))
    ops.append((b'CLS', ('S', 'CLS')))
    ops.append((b'VIEW PRINT 2 TO 4', ('V', 2, 4)))
    ops.append((b'VIEW PRINT', ('V', None, None)))
    # bottom above top: refused
    ops.append((b'VIEW PRINT 4 TO 2', ('V', 4, 2)))
    ops.append((b'VIEW PRINT 1 TO 24', ('V', 1, 24)))
    # rows given as fractions: rounded to the nearest whole number, halves away from zero (2.5 -> 3, 4.5 -> 5, 2.4 -> 2)
    ops.append((b'VIEW PRINT 2.5 TO 4.5', ('V', 3, 5)))
    if full:
        ops.append((b'WIDTH 40', ('S', 'WIDTH')))
        ops.append((b'WIDTH 80', ('S', 'WIDTH')))
    return ops


CONFIGS = {
    't80': dict(kw={'video': 'cga'}, setup=[b'WIDTH 80'], w=80),
    't40': dict(kw={'video': 'cga'}, setup=[b'WIDTH 40'], w=40),
    's1': dict(kw={'video': 'cga'}, setup=[b'SCREEN 1'], w=40),
    's2': dict(kw={'video': 'cga'}, setup=[b'SCREEN 2'], w=80),
}

_OPS = {}


def ops_for(cid, full):
    k = (cid, full)
    if k not in _OPS:
        _OPS[k] = make_ops(CONFIGS[cid]['w'], full)
    return _OPS[k]


def spec_of(cid, stmt):
    for full in (True, False, 'modes', 'modesv'):
        for st, sp in ops_for(cid, full):
            if st == stmt:
                return sp
    # WIDTH changes the width: the statement may belong to the other width's alphabet
    for other in CONFIGS:
        for full in (True, False):
            for st, sp in ops_for(other, full):
                if st == stmt:
                    return sp
    raise CheckError('unknown op %r' % stmt)


# ---------------------------------------------------------------------------------------

class Rig(object):

    def __init__(self, cid):
        cfg = CONFIGS[cid]
        self.cid = cid
        self.s = H.new_session(horizon=4000, **cfg['kw'])
        self.impl = self.s._impl
        self.ts = self.impl.text_screen
        for st in cfg['setup']:
            r = H.run(self.s, st)
            if r.err is not None or r.exc is not None:
                raise CheckError('setup %r failed: %r' % (st, r))
        self.model = None
        self.polluted = False
        # LOCATE 25,c allows writing on the bottom row until the cursor leaves that row again; kept by the
        # check itself (not read from the implementation), so that a stale permission shows
        self.allow25 = False
        self.resync()

    # observations ---------------------------------------------------------------

    def width(self):
        return self.impl.display.mode.width

    def rows(self):
        return [b''.join(r) for r in self.s.get_chars()]

    def reported_cursor(self):
        return self.s.evaluate(b'CSRLIN'), self.s.evaluate(b'POS(0)')

    def internal_cursor(self):
        ts = self.ts
        return ts.current_row, ts.current_col + (1 if ts.overflow else 0)

    def resync(self):
        ts = self.ts
        m = Term(self.width(), HEIGHT)
        m.grid = [bytearray(r) for r in self.rows()]
        m.r, m.c = self.internal_cursor()
        m.top, m.bottom = ts.scroll_area.bounds
        m.view = ts.scroll_area.active
        self.model = m

    def state_key(self):
        d = self.impl.display
        ts = self.ts
        h = hashlib.sha1()
        h.update(repr((
            d.mode.name, ts.current_row, ts.current_col, ts.overflow, ts.scroll_area.bounds,
            ts.scroll_area.active, ts._bottom_row_allowed, ts._bottom_bar.visible, d.apagenum, d.vpagenum,
        )).encode())
        for page in d.pages[:1]:
            for row in page._rows:
                h.update(b''.join(row.chars))
                h.update(b'%d,%d;' % (row.length, row.wrap))
        return h.hexdigest()

    # one statement --------------------------------------------------------------

    def step(self, stmt, spec, report=True):
        """Execute stmt, compare with the reference. -> (viols, info)"""
        viols = []
        m = self.model
        w0 = m.w
        before_rows = m.rows()
        view = 'view' if m.view else 'noview'
        start = ('col1' if m.c == 1 else 'pending' if m.c > m.w else 'margin' if m.c == m.w else 'mid')
        atbottom = 'bottom' if m.r == m.bottom else ('outside' if not m.in_window() else 'inner')
        modelled = m.in_window() and not self.allow25
        r = H.run(self.s, stmt)
        kind = spec[0]
        name = {'P': 'print', 'C': 'ctrl', 'L': 'locate', 'S': 'stmt', 'V': 'view'}[kind]
        if r.exc is not None:
            viols.append(('%s/host-exception/%s' % (name, H.exc_key(r.exc)), repr(r.exc)))
            self.resync()
            return viols, '%s/host-exception' % name
        rows = self.rows()
        w = self.width()
        csr, pos = self.reported_cursor()
        # invariants: cursor within the screen
        if not (isinstance(csr, int) and 1 <= csr <= HEIGHT and isinstance(pos, int) and 1 <= pos <= w):
            viols.append(('cursor/outside-screen/%s' % name,
                          'after %r: CSRLIN=%r POS=%r on a %dx%d screen' % (stmt, csr, pos, w, HEIGHT)))
        icur = self.internal_cursor()
        info = None
        if kind == 'P':
            text, nl = spec[1], spec[2]
            lc = ('1' if len(text) == 1 else 'w-1' if len(text) == w0 - 1 else 'w' if len(text) == w0 else
                  'w+1' if len(text) == w0 + 1 else '2w')
            cls = 'len%s%s/%s/%s/%s' % (lc, '' if nl else ';', start, atbottom, view)
            info = 'print/len%s%s/%s/%s' % (lc, '' if nl else ';', start, view)
            if r.err is not None:
                viols.append(('print/error/%s' % cls, '%r raised error %r' % (stmt, r.err)))
            elif modelled:
                cands = m.print_variants(text, nl)
                grid_ok = [t for t in cands if t.rows() == rows]
                if not grid_ok:
                    exp = cands[0].rows()
                    bad = [i + 1 for i in range(HEIGHT) if exp[i] != rows[i]]
                    viols.append((
                        'print/placement/%s' % cls,
                        '%r from cursor (%d,%d) window %d-%d: text rows %r differ from every reference '
                        'placement; row %d is %r, reference %r' % (
                            stmt[:24], m.r, m.c, m.top, m.bottom, bad[:6], bad[0],
                            rows[bad[0] - 1][:12], exp[bad[0] - 1][:12])))
                else:
                    cur_ok = [t for t in grid_ok if (csr, pos) in t.cursor_reports()]
                    if not cur_ok:
                        viols.append((
                            'print/cursor-report/%s' % cls,
                            '%r from (%d,%d): text placed as the reference but CSRLIN,POS = %r, reference '
                            'cursor %r' % (stmt[:24], m.r, m.c, (csr, pos),
                                           sorted(set(x for t in grid_ok for x in t.cursor_reports())))))
                    else:
                        exact = [t for t in cur_ok if (t.r, t.c) == icur]
                        if exact:
                            self.model = exact[0]
                            self._screen_fn_check(viols, rows, csr, pos, w, name)
                            return viols, info
            else:
                info = 'print/unmodelled/len%s/%s' % (lc, view)
                # wherever the cursor is (e.g. on row 25, outside the scroll window): text that fits on
                # the rest of the current row, printed without a newline, changes those cells only -
                # otherwise SCREEN(r,c) would no longer return what was last written at other cells
                if not nl and m.c <= m.w and (m.c - 1) + len(text) <= m.w and 1 <= m.r <= HEIGHT:
                    exp = [bytearray(x) for x in before_rows]
                    exp[m.r - 1][m.c - 1:m.c - 1 + len(text)] = text
                    exp = [bytes(x) for x in exp]
                    if rows != exp:
                        bad = [i + 1 for i in range(HEIGHT) if exp[i] != rows[i]]
                        viols.append((
                            'print/fitting-text-moved-other-cells/%s' % cls,
                            '%r at cursor (%d,%d) fits on the row, but rows %r changed (row %d is %r, expected %r)' % (
                                stmt[:24], m.r, m.c, bad[:6], bad[0], rows[bad[0] - 1][:12], exp[bad[0] - 1][:12])))
        elif kind == 'L':
            lr, lcol = spec[1], spec[2]
            inscreen = 1 <= lr <= HEIGHT and 1 <= lcol <= w0
            cls = '%s/%s' % ('in' if inscreen else 'out', view)
            info = 'locate/%s/%s' % (cls, 'ok' if r.err is None else 'err%d' % r.err)
            if r.err is None:
                if not inscreen:
                    viols.append(('locate/out-of-screen-accepted',
                                  '%r accepted on a %dx%d screen; cursor now %r' % (stmt, w0, HEIGHT, (csr, pos))))
                elif (csr, pos) != (lr, lcol):
                    viols.append(('locate/landed-elsewhere/from-%s/to-%s/%s' % (
                        start, 'last-column' if lcol == w0 else 'other-column', view),
                                  '%r with the cursor at (%d,%d)%s: CSRLIN,POS = %r afterwards' % (
                                      stmt, m.r, min(m.c, m.w), ' wrap pending' if m.c > m.w else '', (csr, pos))))
            elif r.err != 5:
                viols.append(('locate/wrong-error', '%r raised error %r, not Illegal function call' % (stmt, r.err)))
            if r.err is None and rows != before_rows:
                # (a failing statement prints its error message on the screen)
                viols.append(('locate/changed-text', '%r changed the text on the screen' % stmt))
        else:
            info = '%s/%s/%s%s' % (name, spec[1] if kind != 'V' else ('set' if spec[1] else 'reset'), view,
                                   '' if r.err is None else '/err%d' % r.err)
            if kind == 'C':
                info = 'ctrl/%d/%s/%s' % (spec[1], 'pending' if start == 'pending' else 'nopending', view)
        # the permission for the bottom row: given by a successful LOCATE 25,c, gone once the cursor is elsewhere
        if kind == 'L' and spec[1] == HEIGHT and r.err is None:
            self.allow25 = True
        elif csr != HEIGHT:
            self.allow25 = False
        # reported cursor must be the internal cursor under one of the accepted reporting variants
        before_window = (m.view, m.top, m.bottom)
        self.resync()
        # the scroll window is what VIEW PRINT made it; no other statement of the alphabet but a mode /
        # width change touches it (the window is otherwise taken from the implementation when the model is
        # re-read, so it has to be pinned here)
        now_window = (self.model.view, self.model.top, self.model.bottom)
        if r.err is None:
            if kind == 'V':
                want = (True, spec[1], spec[2]) if spec[1] is not None else (False, 1, HEIGHT - 1)
                if now_window != want:
                    viols.append(('view/window-not-as-set', 'after %r the scroll window is %r, expected %r' % (stmt, now_window, want)))
            elif not (kind == 'S' and spec[1] == 'WIDTH') and now_window != before_window:
                viols.append(('view/window-changed-by-%s' % name, 'after %r the scroll window is %r, was %r' % (
                    stmt, now_window, before_window)))
        elif now_window != before_window:
            # a statement that was refused has not touched the scroll window
            viols.append(('view/window-changed-by-refused-%s' % name, '%r was refused (error %r) but the scroll window is %r, was %r' % (
                stmt, r.err, now_window, before_window)))
        if (csr, pos) not in self.model.cursor_reports() and self.model.in_window():
            stale = self.ts.overflow and self.ts.current_col != w
            viols.append(('cursor/report-differs/%s/%s' % (
                'stale-pending-wrap-flag' if stale else 'other',
                name if kind != 'C' else 'ctrl%d' % spec[1]),
                          'after %r: CSRLIN,POS = %r but the next character goes to %r' % (
                              stmt, (csr, pos), sorted(self.model.cursor_reports()))))
        self._screen_fn_check(viols, rows, csr, pos, w, name)
        return viols, info

    def _screen_fn_check(self, viols, rows, csr, pos, w, name):
        m = self.model
        cells = {(1, 1), (1, w), (2, 1), (4, w), (5, 1), (24, 1), (24, w), (25, 1), (25, w)}
        if isinstance(csr, int) and isinstance(pos, int) and 1 <= csr <= HEIGHT and 1 <= pos <= w:
            cells.update({(csr, pos), (csr, max(1, pos - 1)), (max(1, csr - 1), w), (max(1, csr - 1), 1)})
        for (r, c) in sorted(cells):
            if m.view and not (m.top <= r <= m.bottom):
                # documented: Illegal function call outside the VIEW PRINT area (and a failing
                # evaluation would print its message on the screen under test)
                continue
            # both spellings of "the character": SCREEN(r,c) and SCREEN(r,c,0)
            both = self.s.evaluate(b'SCREEN(%d,%d)*256!+SCREEN(%d,%d,0)' % (r, c, r, c))
            got = None if both is None else int(both) >> 8
            exp = bytearray(rows[r - 1])[c - 1]
            if got is None:
                viols.append(('screen-fn/error/%s' % name, 'SCREEN(%d,%d) failed' % (r, c)))
                self.polluted = True
            elif got == exp and int(both) & 255 != exp:
                viols.append(('screen-fn/wrong-char-with-zero-flag/%s' % name,
                              'SCREEN(%d,%d,0) = %r but the cell holds %r' % (r, c, int(both) & 255, exp)))
            elif got != exp:
                viols.append(('screen-fn/wrong-char/%s' % name,
                              'SCREEN(%d,%d) = %r but the cell holds %r' % (r, c, got, exp)))


def build(cid, hist):
    rig = Rig(cid)
    for st in hist:
        rig.step(st, spec_of(cid, st))
    return rig


def _expand(hist, full):
    cid = hist[0]
    out = []
    for st, spec in ops_for(cid, full):
        rig = build(cid, hist[1:])
        if rig.width() != CONFIGS[cid]['w']:
            # a WIDTH statement took us to the other width: use that width's statements
            other = [c for c in CONFIGS if CONFIGS[c]['w'] == rig.width()][0]
            alt = [o for o in ops_for(other, full)]
            idx = [s for s, _ in ops_for(cid, full)].index(st)
            st, spec = alt[idx]
        viols, info = rig.step(st, spec)
        key = (cid, rig.state_key())
        if rig.polluted or any('/host-exception' in v[0] for v in viols):
            key = None
        out.append((st, key, viols, info))
    return out


def expand_full(hist):
    return _expand(hist, True)


def expand_core(hist):
    return _expand(hist, False)


def expand_modes(hist):
    return _expand(hist, 'modes')


def expand_modesv(hist):
    return _expand(hist, 'modesv')


def work_bfs(shard):
    cid, full, depth, budget = shard
    part = Partial()
    bfs.explore({True: expand_full, False: expand_core, 'modes': expand_modes, 'modesv': expand_modesv}[full], [(cid,)], depth, part,
                time_budget=budget, label='%s_%s' % (cid, {True: 'full', False: 'core', 'modes': 'modes', 'modesv': 'modesv'}[full]))
    return part


# ---------------------------------------------------------------------------
# statements refused under an error trap: the cursor (with a pending wrap) stays where it was.  (Typed in direct mode a
# refused statement prints its message, which moves the cursor; inside a program with ON ERROR GOTO / RESUME NEXT
# nothing is printed, so the position after the refusal can be compared with the program that lacks the statement.
# A LOCATE with a valid (or omitted) position and a bad later argument - LOCATE 3,1,2, LOCATE ,,,32,1 - moves the cursor before it is refused: what a
# statement refused part-way has already done is not specified, and such forms are not in the list.)

REFUSED_CURSOR = [b'LOCATE 26,1', b'LOCATE 0,1', b'LOCATE 3,%(over)d', b'LOCATE ,0',
                  b'VIEW PRINT 4 TO 2', b'VIEW PRINT 0 TO 3', b'WIDTH 50', b'COLOR 99', b'SCREEN 99', b'KEY 99,"x"',
                  b'ERROR 5', b'X=1/0+LOG(0)']
REFUSED_STARTS = [('pending', b'LOCATE 3,1:PRINT STRING$(%(w)d,"x");'), ('mid', b'LOCATE 3,5:PRINT "ab";'),
                  ('last-row', b'LOCATE 24,1:PRINT STRING$(%(w)d,"y");'), ('row25', b'KEY OFF:LOCATE 25,3:PRINT "k";')]


def refused_cases():
    return [(cid, st, ri) for cid in CONFIGS for st in range(len(REFUSED_STARTS)) for ri in range(len(REFUSED_CURSOR))]


def _refused_run(cid, start, stmt):
    cfg = CONFIGS[cid]
    s = H.new_session(**cfg['kw'])
    try:
        for st in cfg['setup']:
            H.run(s, st)
        lines = [b'10 ON ERROR GOTO 90', b'20 ' + start, b'30 ' + (stmt or b'REM'), b'40 R%=CSRLIN:C%=POS(0)',
                 b'50 PRINT "Z";', b'60 END', b'90 E%=E%+1:RESUME NEXT']
        for l in lines:
            r = H.run(s, l)
            if r.exc is not None or r.out.strip():
                raise CheckError('line not accepted: %r -> %r' % (l, r))
        r = H.run(s, b'RUN')
        if r.exc is not None:
            return ('exc', H.exc_key(r.exc), repr(r.exc))
        rows = [b''.join(row) for row in s.get_chars()]
        return ('ok', r.err, s.get_variable('E%'), (s.get_variable('R%'), s.get_variable('C%')), rows)
    finally:
        s.close()


def work_refused(shard):
    part = Partial()
    for cid, sti, ri in shard:
        w = CONFIGS[cid]['w']
        start = REFUSED_STARTS[sti][1].replace(b'%(w)d', b'%d' % w)
        stmt = REFUSED_CURSOR[ri].replace(b'%(over)d', b'%d' % (w + 1))
        case = {'cid': cid, 'start': sti, 'refused': ri}
        ref = _refused_run(cid, start, None)
        got = _refused_run(cid, start, stmt)
        part.n += 1
        part.traces += 2
        name = stmt.split(b' ')[0].decode() if b'=' not in stmt else 'LET'
        if ref[0] != 'ok':
            raise CheckError('reference program failed: %r' % (ref,))
        if got[0] == 'exc':
            part.violation('refused/host-exception/%s' % got[1], '%r under a trap: %s' % (stmt, got[2]), case)
            continue
        if got[2] == 0:
            # accepted in this mode (e.g. a WIDTH or COLOR value that is legal here): not what this leg is about
            part.outcome('not-refused')
            continue
        part.classes.add('refused/%s/%s/%s' % (cid, REFUSED_STARTS[sti][0], name))
        if got[3] != ref[3] or got[4] != ref[4]:
            bad = [i + 1 for i in range(len(ref[4])) if got[4][i] != ref[4][i]]
            part.violation('refused/cursor-moved/%s/%s' % (REFUSED_STARTS[sti][0], name),
                           '%s: after %r the trapped %r leaves CSRLIN,POS = %r (without the statement %r); text rows that differ '
                           'after PRINT "Z": %r' % (cid, start, stmt, got[3], ref[3], bad[:4]), case)
    part.sample({'refused': list(shard[0])})
    return part


def legs(ctx):
    out = []
    rc = refused_cases()
    out.append(Leg('refused-cursor', [rc[i::8] for i in range(8)], work_refused, exhaustive=True,
                   bound='%d programs: 4 configurations x 4 cursor states (wrap pending at the right margin, mid row, wrap pending on row 24, '
                         'row 25) x %d statements refused under ON ERROR GOTO / RESUME NEXT: CSRLIN, POS and the place of the next character '
                         'equal those of the program without the statement' % (len(rc), len(REFUSED_CURSOR))))
    if ctx.quick:
        plan = [(cid, True, 2, None) for cid in CONFIGS] + [(cid, False, 3, None) for cid in ('t80', 's1')]
        plan += [(cid, 'modesv', 4, None) for cid in ('t80', 's1')]
    else:
        plan = [(cid, True, 3, None) for cid in CONFIGS] + [(cid, False, 4, None) for cid in CONFIGS]
        plan += [(cid, 'modes', 6, None) for cid in CONFIGS] + [(cid, 'modesv', 4, None) for cid in CONFIGS]
    for cid, full, depth, budget in plan:
        n = len(ops_for(cid, full))
        nm = {True: 'full', False: 'core', 'modes': 'modes', 'modesv': 'modesv'}[full]
        out.append(Leg('bfs-%s-%s' % (cid, nm), [(cid, full, depth, budget)], work_bfs,
                       exhaustive=True, serial=True,
                       bound='%s: all histories of <= %d statements over the %s alphabet (%d statements), states '
                             'merged on the full text-screen state' % (cid, depth, nm, n)))
    return out


def replay(ctx, leg, case):
    if leg == 'refused-cursor':
        return work_refused([(case['cid'], case['start'], case['refused'])])
    part = Partial()
    hist = case['history']
    cid = hist[0]
    stmts = [h if isinstance(h, bytes) else h.encode('latin-1') for h in hist[1:]]
    rig = build(cid, stmts[:-1])
    viols, info = rig.step(stmts[-1], spec_of(cid, stmts[-1]))
    for key, what in viols:
        part.violation(key, what, case)
    part.n = 1
    return part
