"""
C28 - DOS file names map to host files consistently.

Legs
  names  E1: every name of a bounded name grammar (trunk x extension templates, legal and illegal
         characters, dots in every position, blanks, over-long parts) x 7 ways of creating a file, on
         an empty native mount: create -> host listing -> open / FILES under every capitalisation ->
         FILES without argument (the listed name must open the file) -> NAME under another
         capitalisation -> KILL under another capitalisation, host directory checked after every step.
  chars  E1: every byte 01..FF (except path syntax and the quote) in the middle of the trunk and of
         the extension: legal characters create the upper-case 8.3 host name, all others Bad file name.
  host   E1: pre-existing host files (lower/mixed case, blank inside, trailing dot, no extension;
         and names that are not 8.3: long, several dots, non-ASCII, hidden): FILES must list every
         visible file under a name that opens it; open under every capitalisation; KILL / NAME / output
         over the existing file act on that file.
  hist   E2: BFS over create / KILL / NAME histories on a universe of 6 spellings of 3 files, canonical
         state = host directory contents, reference model = dict DOS name -> content; to a fixed point.
Reference: 8.3 rules as in the statement and docs (permissible characters: printable ASCII except
" * + . , / : ; < = > ? \\ [ ] | ).
"""
import os
import re
import itertools

from mc.core import Leg, Partial, CheckError, chunked
from mc import harness as H
from mc import fast
from mc import bfs
from mc.fast import basic_str

PROPERTY = 'C28'
ENGINE = 'E1 domain + E2 bfs'
LEVEL = 'model_checking'
LEVEL_TEXT = (
    'Bounded exhaustive enumeration: the full product of a trunk alphabet and an extension alphabet (legal, '
    'illegal, blank-edged, over-long, multi-dot, empty) x 7 creating statements is driven through a fixed '
    'create/open/list/rename/kill scenario on the real interpreter with the host directory inspected after '
    'every step; every byte value is tried as a file-name character; create/KILL/NAME histories over 6 '
    'spellings of 3 files are explored by BFS to a fixed point against a dictionary model.')
LEVEL_NOTE = ('Host file systems that are case-insensitive or provide Windows short names, host names that '
              'collide case-insensitively, and directories (MKDIR/CHDIR/RMDIR names) are outside the bound.')
TECHNIQUE = ('bounded exhaustive enumeration of DOS names x creating statements x capitalisations on a live '
             'Session with a native mount, against an 8.3 reference normaliser and a dictionary model')
RULE = ('a case = (name, creating statement) scenario; class = (name class: legal / illegal-char / overlong / '
        'blank-edge / empty-trunk / trailing-dot, creating statement, outcome)')
ASSUMPTIONS = [
    'illegal = a non-permissible character inside the first 8 trunk / first 3 extension characters (including a '
    'second dot there); over-long parts may be truncated to 8.3 (documented) or rejected; names with leading/'
    'trailing blanks in trunk or extension, an empty trunk, or illegal characters only in the truncated-away '
    'part are unspecified: any BASIC error, or a creation that is then consistent, is accepted',
    'a trailing single dot denotes the name without extension (AB. = AB); the host file may be created with '
    'or without the dot',
    'AUX, CON, PRN, NUL (device aliases) are not used as names',
    '"FILES lists ... under the DOS name that opens it": the listed name, blanks stripped, trunk.ext, given to '
    'OPEN/LOAD must reach the same host file; hidden files (leading dot on this host) are not "visible"',
    'programs are compared through LIST, random files through GET, BSAVE images are only required to BLOAD',
]

BAD_FILE_NAME = 64
PERMISSIBLE = set(range(0x20, 0x7f)) - set(b'"*+.,/:;<=>?\\[]|')
RESERVED = (b'AUX', b'CON', b'PRN', b'NUL')

TRUNKS = [b'', b'A', b'ab', b'Ab', b'aB', b'a1', b'A_B', b'A B', b"A-B$", b'ABCDEFGH', b'abcdefgh',
          b'AbCdEfGh', b'ABCDEFGHI', b'abcdefghijkl', b'A+B', b'A*', b'A?B', b'A,B', b'A;B', b'A=B',
          b'A[B', b'A|B', b'A<B', b'A\x82', b'\x82', b'A\x01B', b'A\x7f', b' A', b'A ', b'ABCDEFGH+',
          b'ABCDEFGHI+']
EXTS = [None, b'', b'B', b'b', b'TXT', b'txt', b'TxT', b'BAS', b'bas', b'TXTX', b'T+T', b'T T', b' T',
        b'T ', b'\x82', b'A.B', b'.B', b'TXT.X', b'TXT+']
KINDS = ['OPEN-O', 'OPEN-A', 'OPEN-R', 'SAVE', 'SAVE-A', 'BSAVE', 'NAME-TO']
PROGRAM = ('SAVE', 'SAVE-A', 'BSAVE')
TOKEN = b'TOKEN123'


###############################################################################
# reference normaliser

def ref_name(name, kind):
    """-> (class, expected host names (set) or None, DOS name with default extension applied).
    class: 'legal' (must be created, upper-case 8.3), 'illegal' (must be Bad file name),
           'unspecified' (any BASIC error, or consistent creation)."""
    full = name
    if kind in PROGRAM and b'.' not in name:
        full = name + b'.BAS'
    trunk, dot, ext = full.partition(b'.')
    k_trunk, k_ext = trunk[:8], ext[:3]
    sub = 'plain'
    cls = 'legal'
    if trunk != trunk.strip() or ext != ext.strip() or k_trunk != k_trunk.strip() or k_ext != k_ext.strip():
        return 'unspecified', None, full, 'blank-edge'
    if any(c not in PERMISSIBLE for c in k_trunk + k_ext):
        return 'illegal', None, full, 'illegal-char'
    if not trunk:
        return 'unspecified', None, full, 'empty-trunk'
    if len(trunk) > 8 or len(ext) > 3:
        if any(c not in PERMISSIBLE for c in trunk[8:] + ext[3:].replace(b'.', b'')) or b'.' in ext[3:]:
            return 'unspecified', None, full, 'overlong+illegal-tail'
        host = (k_trunk + (b'.' + k_ext if k_ext else b'')).upper()
        return 'unspecified', set([host]), full, 'overlong'
    host = (trunk + (b'.' + ext if ext else b'')).upper()
    hosts = set([host])
    if dot and not ext:
        hosts.add(host + b'.')
        sub = 'trailing-dot'
    elif kind in PROGRAM and b'.' not in name:
        sub = 'default-ext'
    elif name != name.upper():
        sub = 'lower-or-mixed'
    return 'legal', hosts, full, sub


def caps(name):
    out = []
    for v in (name, name.upper(), name.lower(), name.swapcase()):
        if v not in out:
            out.append(v)
    return out


###############################################################################
# environment

class Env(object):
    def __init__(self):
        fast.no_sleep()
        fast.quiet()
        self.scr = H.Scratch('pcbverif_c28_')
        self.mount = os.path.join(self.scr.path, 'm')
        os.mkdir(self.mount)
        self.s = None
        self.fresh()

    def fresh(self):
        if self.s is not None:
            try:
                self.s.close()
            except Exception:
                pass
        self.s = H.new_session(devices={'C': self.mount, 'Z': None}, current_device='C:', horizon=500)

    def __enter__(self):
        return self

    def __exit__(self, *a):
        try:
            self.s.close()
        except Exception:
            pass
        self.scr.__exit__()

    def listing(self):
        """host directory: dict name(bytes) -> content."""
        out = {}
        for n in os.listdir(self.mount):
            p = os.path.join(self.mount, n)
            if os.path.isdir(p):
                out[os.fsencode(n)] = None
            else:
                with open(p, 'rb') as f:
                    out[os.fsencode(n)] = f.read()
        return out

    def clear(self):
        import shutil
        if self.s._impl.files.files:
            H.run(self.s, b'CLOSE')
        for n in os.listdir(self.mount):
            p = os.path.join(self.mount, n)
            if os.path.isdir(p):
                shutil.rmtree(p)
            else:
                os.remove(p)

    def run(self, stmt):
        # program lines (leading digit) are entered as they are
        return H.run(self.s, stmt if stmt[:1].isdigit() else fast.TOP + stmt)


def create_stmt(kind, name):
    q = basic_str(name)
    if kind == 'OPEN-O':
        return [b'OPEN ' + q + b' FOR OUTPUT AS 1:PRINT#1,"' + TOKEN + b'":CLOSE 1']
    if kind == 'OPEN-A':
        return [b'OPEN ' + q + b' FOR APPEND AS 1:PRINT#1,"' + TOKEN + b'":CLOSE 1']
    if kind == 'OPEN-R':
        return [b'OPEN ' + q + b' AS 1 LEN=8:FIELD 1,8 AS F$:LSET F$="' + TOKEN + b'":PUT 1,1:CLOSE 1']
    if kind == 'SAVE':
        return [b'NEW', b'1 REM ' + TOKEN, b'SAVE ' + q]
    if kind == 'SAVE-A':
        return [b'NEW', b'1 REM ' + TOKEN, b'SAVE ' + q + b',A']
    if kind == 'BSAVE':
        return [b'DEF SEG=&HB800:BSAVE ' + q + b',4096,16']
    if kind == 'NAME-TO':
        return [b'OPEN "SOURCE.TMP" FOR OUTPUT AS 1:PRINT#1,"' + TOKEN + b'":CLOSE 1',
                b'NAME "source.tmp" AS ' + q]
    raise CheckError(kind)


def open_check(e, kind, v):
    """Open the file under spelling v the way its kind is read; -> (ok, detail, Run)."""
    q = basic_str(v)
    if kind in ('OPEN-O', 'OPEN-A', 'NAME-TO', 'DATA'):
        r = e.run(b'V$="":OPEN ' + q + b' FOR INPUT AS 1:LINE INPUT#1,V$:CLOSE 1')
        if r.exc is None and r.err is None:
            got = e.s.get_variable('V$')
            return got == TOKEN, 'read %r' % got, r
        return False, 'error %s' % r.err, r
    if kind == 'OPEN-R':
        r = e.run(b'V$="":OPEN ' + q + b' AS 1 LEN=8:FIELD 1,8 AS F$:GET 1,1:V$=F$:CLOSE 1')
        if r.exc is None and r.err is None:
            got = e.s.get_variable('V$')
            return got == TOKEN, 'read %r' % got, r
        return False, 'error %s' % r.err, r
    if kind in ('SAVE', 'SAVE-A'):
        e.run(b'NEW')
        r = e.run(b'LOAD ' + q)
        if r.exc is None and r.err is None:
            lst = e.run(b'LIST').out
            return lst == b'1 REM ' + TOKEN + b'\r\n', 'LIST %r' % lst, r
        return False, 'error %s' % r.err, r
    if kind == 'BSAVE':
        r = e.run(b'DEF SEG=&HB800:BLOAD ' + q + b',8192')
        return r.exc is None and r.err is None, 'error %s' % r.err, r
    raise CheckError(kind)


def parse_files(out):
    """FILES output -> list of (name bytes, is_dir)."""
    lines = out.replace(b'\r\n', b'\n').split(b'\n')
    entries = []
    for line in lines[1:]:
        if line.endswith(b'Bytes free') or not line.strip():
            continue
        if parse_err(line):
            continue
        for i in range(0, len(line), 18):
            col = line[i:i + 17]
            if len(col) < 12:
                continue
            trunk, dot, ext, tag = col[:8], col[8:9], col[9:12], col[12:17]
            name = trunk.rstrip() + (b'.' + ext.rstrip() if ext.strip() else (b'.' if dot == b'.' and not trunk.strip() else b''))
            entries.append((name, tag.strip() == b'<DIR>'))
    return entries


def parse_err(line):
    return line.endswith(b'\xff')


###############################################################################
# names leg

def scenario(part, e, name, kind):
    cls, hosts, full, sub = ref_name(name, kind)
    case = {'name': name, 'kind': kind}
    label = '%s/%s/%s' % (kind, cls, sub)
    part.n += 1
    part.traces += 1

    def fail(key, msg):
        part.violation(key, '%s %r (%s, %s): %s' % (kind, name, cls, sub, msg), case)
        part.outcome(label + ':FAIL')

    e.clear()
    r = None
    for st in create_stmt(kind, name):
        r = e.run(st)
        if r.exc is not None:
            fail('create/host-exception/%s/%s' % (H.exc_key(r.exc), sub), '%r raised %r' % (st, r.exc))
            e.fresh()
            return
        if r.err is not None and st is not create_stmt(kind, name)[-1] and not st.startswith(b'NAME'):
            pass
    lst = e.listing()
    if kind == 'NAME-TO':
        created = dict((k, v) for k, v in lst.items() if k != b'SOURCE.TMP') if r.err is None else {}
        leftovers_ok = (b'SOURCE.TMP' in lst) == (r.err is not None)
    else:
        created = lst
        leftovers_ok = True
    if cls == 'illegal':
        if r.err != BAD_FILE_NAME:
            fail('create/illegal-not-rejected/%s' % kind,
                 'expected Bad file name (64), got error %r; host directory %r' % (r.err, sorted(lst)))
        elif created or not leftovers_ok:
            fail('create/illegal-left-files/%s' % kind, 'Bad file name raised but host directory is %r' % sorted(lst))
        else:
            part.outcome(label + ':rejected-64')
            part.classes.add(label + ':rejected-64')
        return
    if r.err is not None:
        if cls == 'legal':
            fail('create/legal-rejected/%s/%s' % (sub, kind), 'error %s, host directory %r' % (r.err, sorted(lst)))
        else:
            if created or not leftovers_ok:
                fail('create/error-left-files/%s/%s' % (sub, kind),
                     'error %s raised but host directory is %r' % (r.err, sorted(lst)))
            else:
                part.outcome(label + ':rejected-%s' % r.err)
                part.classes.add(label + ':rejected-%s' % r.err)
        return
    if len(created) != 1 or not leftovers_ok:
        fail('create/wrong-host-files/%s/%s' % (sub, kind), 'host directory after creation: %r' % sorted(lst))
        return
    host = list(created)[0]
    if hosts is not None and host not in hosts:
        fail('create/host-name/%s/%s' % (sub, kind),
             'created host file %r, expected %s' % (host, ' or '.join(repr(h) for h in sorted(hosts))))
        return
    if cls == 'unspecified' and hosts is None:
        # accepted: whatever was created must now behave consistently; a hidden result cannot be listed
        if host.startswith(b'.'):
            part.outcome(label + ':created-hidden')
            part.classes.add(label + ':created-hidden')
            return
    # DOS name the file goes by (default extension applied); where the statement leaves the
    # normalisation open (over-long, blank-edged names) it is the name the file was created under
    if cls == 'unspecified':
        full = host if b'.' in host or kind not in PROGRAM else host + b'.'
    spellings = caps(name)
    okind = kind
    for v in spellings:
        ok, detail, r2 = open_check(e, okind, v)
        if r2.exc is not None:
            fail('open/host-exception/%s' % H.exc_key(r2.exc), 'opening as %r raised %r' % (v, r2.exc))
            e.fresh()
            return
        if not ok:
            fail('open/%s/%s/%s' % (sub, kind, 'same-spelling' if v == name else 'other-capitalisation'),
                 'created as %r (host %r) but opening it as %r: %s' % (name, host, v, detail))
            return
        now = e.listing()
        if sorted(now) != sorted(lst):
            fail('open/created-second-file/%s/%s' % (sub, kind),
                 'opening as %r changed the host directory to %r' % (v, sorted(now)))
            return
    # FILES under every capitalisation of the full DOS name
    for v in caps(full):
        r2 = e.run(b'FILES ' + basic_str(v))
        if r2.exc is not None:
            fail('files/host-exception/%s' % H.exc_key(r2.exc), 'FILES %r raised %r' % (v, r2.exc))
            e.fresh()
            return
        ents = [n for n, d in parse_files(r2.out) if not d]
        if r2.err is not None or len(ents) != 1:
            fail('files/%s/%s/not-listed' % (sub, kind),
                 'FILES %r -> error %r, entries %r (host %r)' % (v, r2.err, ents, host))
            return
    # FILES without mask: every listed file name must open the file
    r2 = e.run(b'FILES')
    ents = [n for n, d in parse_files(r2.out) if not d]
    want = 1 + (1 if (kind == 'NAME-TO' and False) else 0)
    if r2.err is not None or len(ents) != want:
        fail('files/%s/%s/bare-listing' % (sub, kind), 'FILES -> error %r, entries %r (host %r)' % (r2.err, ents, host))
        return
    listed = ents[0]
    # the listed name carries its extension: programs must not get .BAS added again
    lname = listed if (kind not in PROGRAM or b'.' in listed) else listed + b'.'
    ok, detail, r3 = open_check(e, okind, lname)
    if not ok:
        fail('files/%s/%s/listed-name-does-not-open' % (sub, kind),
             'FILES lists %r for host file %r, opening %r: %s' % (listed, host, lname, detail))
        return
    # rename under another capitalisation, to a mixed-case name; then kill under yet another
    src = full.swapcase() if full.swapcase() != full else full.lower()
    r2 = e.run(b'NAME ' + basic_str(src) + b' AS "ReNamed.tMp"')
    now = e.listing()
    if r2.exc is not None or r2.err is not None or sorted(now) != [b'RENAMED.TMP']:
        fail('rename/%s/%s' % (sub, kind), 'NAME %r AS "ReNamed.tMp" -> error %r exc %r, host directory %r' % (
            src, r2.err, r2.exc, sorted(now)))
        return
    if now[b'RENAMED.TMP'] != lst[host]:
        fail('rename/content-changed/%s' % kind, 'content changed by NAME')
        return
    r2 = e.run(b'KILL "rEnAMED.TmP"')
    now = e.listing()
    if r2.exc is not None or r2.err is not None or now:
        fail('kill/%s/%s' % (sub, kind), 'KILL "rEnAMED.TmP" -> error %r exc %r, host directory %r' % (
            r2.err, r2.exc, sorted(now)))
        return
    # kill under another capitalisation of the original name
    for st in create_stmt(kind, name):
        e.run(st)
    r2 = e.run(b'KILL ' + basic_str(full.lower() if full.lower() != name else full.upper()))
    now = e.listing()
    if r2.exc is not None or r2.err is not None or now:
        fail('kill/%s/%s/original-name' % (sub, kind), 'KILL %r -> error %r exc %r, host directory %r' % (
            full.lower(), r2.err, r2.exc, sorted(now)))
        return
    part.outcome(label + ':ok')
    part.classes.add(label + ':ok')


def all_names():
    names = []
    for t in TRUNKS:
        for x in EXTS:
            n = t if x is None else t + b'.' + x
            if not n or n.upper().split(b'.')[0] in RESERVED:
                continue
            if n not in names:
                names.append(n)
    return names


def work_names(shard):
    part = Partial()
    with Env() as e:
        for name, kind in shard:
            scenario(part, e, name, kind)
    part.sample({'name': shard[0][0], 'kind': shard[0][1]})
    return part


def case_patterns(word):
    """all capitalisations of the letters of word."""
    idx = [i for i, c in enumerate(word) if bytes([c]).isalpha()]
    out = []
    for mask in range(1 << len(idx)):
        w = bytearray(word.lower())
        for j, i in enumerate(idx):
            if mask & (1 << j):
                w[i] = w[i] - 32
        out.append(bytes(w))
    return out


def caps_scenario(part, e, created_as, kind, base):
    """Create under one capitalisation, open under EVERY capitalisation."""
    case = {'caps': created_as, 'kind': kind, 'base': base}
    part.n += 1
    part.traces += 1
    e.clear()
    for st in create_stmt(kind, created_as):
        r = e.run(st)
    lst = e.listing()
    full = created_as if (kind not in PROGRAM or b'.' in created_as) else created_as + b'.BAS'
    if r.err is not None or r.exc is not None or sorted(lst) != [full.upper()]:
        part.violation('caps/create/%s' % kind, '%s %r -> error %r exc %r, host directory %r' % (
            kind, created_as, r.err, r.exc, sorted(lst)), case)
        return
    for v in case_patterns(base):
        ok, detail, r2 = open_check(e, kind, v)
        part.n += 1
        if not ok or sorted(e.listing()) != sorted(lst):
            part.violation('caps/open/%s' % kind, 'created as %r, opening as %r: %s; host directory %r' % (
                created_as, v, detail, sorted(e.listing())), case)
            return
    part.outcome('caps/%s:ok' % kind)
    part.classes.add('caps/%s/%s' % (kind, 'upper' if created_as.isupper() else (
        'lower' if created_as.islower() else 'mixed')))


def work_caps(shard):
    part = Partial()
    with Env() as e:
        for created_as, kind, base in shard:
            caps_scenario(part, e, created_as, kind, base)
    part.sample({'caps': shard[0][0], 'kind': shard[0][1]})
    return part


def char_names():
    out = []
    for c in range(1, 256):
        if c in b'\\/:"':
            continue
        ch = bytes([c])
        out.append(b'A' + ch + b'Z.TXT')
        out.append(b'CHAR.T' + ch + b'T')
    return out


###############################################################################
# host leg

HOST_SETS = [
    # (host file names, which are plain 8.3 in some case)
    ['lower.txt'], ['Mixed.Txt'], ['UPPER.TXT'], ['noext'], ['NoExt'], ['trail.'], ['a b.txt'], ['a_b-c.d$'],
    ['lower.txt', 'Other.Bas'], ['abcdefgh.xyz'], ['Prog.Bas'],
    # not 8.3
    ['LongFileName.txt'], ['file.text'], ['x.y.z'], ['é.txt'], ['.hidden'], ['.hidden', 'seen.txt'],
    ['plus+.txt'], ['LongFileName.txt', 'short.txt'],
]


def host_class(n):
    b = n.encode('utf-8')
    if n.startswith('.'):
        return 'hidden'
    try:
        a = n.encode('ascii')
    except UnicodeEncodeError:
        return 'non-ascii'
    t, d, x = a.partition(b'.')
    if b'.' in x:
        return 'several-dots'
    if len(t) > 8 or len(x) > 3:
        return 'long'
    if any(c not in PERMISSIBLE for c in t + x):
        return 'illegal-char'
    return '8.3'


def host_scenario(part, e, names):
    case = {'host': names}
    part.n += 1
    part.traces += 1
    e.clear()
    contents = {}
    for i, n in enumerate(names):
        body = b'CONTENT OF FILE %d\r\n' % i
        with open(os.path.join(e.mount, n), 'wb') as f:
            f.write(body)
        contents[n] = b'CONTENT OF FILE %d' % i

    def fail(key, msg):
        part.violation(key, 'host files %r: %s' % (names, msg), case)
        part.outcome('host:FAIL')

    r = e.run(b'FILES')
    if r.exc is not None:
        fail('host/files/host-exception/%s' % H.exc_key(r.exc), 'FILES raised %r' % (r.exc,))
        e.fresh()
        return
    ents = [n for n, d in parse_files(r.out) if not d]
    visible = [n for n in names if host_class(n) != 'hidden']
    if len(ents) != len(visible):
        fail('host/files/count', 'FILES lists %r for visible host files %r' % (ents, visible))
        return
    # each listed name must open a file; together they must reach every visible file
    reached = {}
    for d in ents:
        rr = e.run(b'V$="":OPEN ' + basic_str(d) + b' FOR INPUT AS 1:LINE INPUT#1,V$:CLOSE 1')
        if rr.exc is not None:
            fail('host/open/host-exception/%s' % H.exc_key(rr.exc), 'OPEN %r raised %r' % (d, rr.exc))
            e.fresh()
            return
        reached[d] = (rr.err, e.s.get_variable('V$') if rr.err is None else None)
    for n in visible:
        hc = host_class(n)
        hits = [d for d, (err, got) in reached.items() if got == contents[n]]
        if not hits:
            fail('host/listed-name-does-not-open/%s' % hc,
                 'host file %r (%s) is listed (FILES shows %r) but none of the listed names opens it: %r' % (
                     n, hc, ents, reached))
            continue
        d = hits[0]
        part.classes.add('host/%s/listed-name-opens' % hc)
        if hc != '8.3':
            continue
        # any capitalisation opens it
        for v in caps(d):
            rr = e.run(b'V$="":OPEN ' + basic_str(v) + b' FOR INPUT AS 1:LINE INPUT#1,V$:CLOSE 1')
            if rr.err is not None or rr.exc is not None or e.s.get_variable('V$') != contents[n]:
                fail('host/open-capitalisation/%s' % hc, 'host file %r listed as %r: OPEN %r -> error %r' % (n, d, v, rr.err))
        # writing under the DOS name goes to the existing file
        rr = e.run(b'OPEN ' + basic_str(d.swapcase()) + b' FOR APPEND AS 1:PRINT#1,"MORE":CLOSE 1')
        now = e.listing()
        if rr.err is not None or sorted(now) != sorted(os.fsencode(x) for x in names) or \
                not now[os.fsencode(n)].endswith(b'MORE\r\n\x1a') and not now[os.fsencode(n)].endswith(b'MORE\r\n'):
            fail('host/append-to-existing/%s' % hc, 'OPEN %r FOR APPEND -> error %r, host directory %r' % (
                d.swapcase(), rr.err, sorted(now)))
            continue
        rr = e.run(b'NAME ' + basic_str(d.lower()) + b' AS "moved.new"')
        now = e.listing()
        exp = sorted([os.fsencode(x) for x in names if x != n] + [b'MOVED.NEW'])
        if rr.err is not None or sorted(now) != exp:
            fail('host/rename/%s' % hc, 'NAME %r AS "moved.new" -> error %r, host directory %r, expected %r' % (
                d.lower(), rr.err, sorted(now), exp))
            continue
        rr = e.run(b'KILL "Moved.New"')
        now = e.listing()
        exp = sorted(os.fsencode(x) for x in names if x != n)
        if rr.err is not None or sorted(now) != exp:
            fail('host/kill/%s' % hc, 'KILL "Moved.New" -> error %r, host directory %r' % (rr.err, sorted(now)))
        # put it back for the other files' turn
        with open(os.path.join(e.mount, n), 'wb') as f:
            f.write(contents[n] + b'\r\n')
    part.outcome('host:done')


def work_host(shard):
    part = Partial()
    with Env() as e:
        for names in shard:
            host_scenario(part, e, names)
    part.sample({'host': shard[0]})
    return part


###############################################################################
# history BFS

SPELL = [b'ab', b'AB', b'Ab.', b'aB.c', b'AB.C', b'x1.dat']


def canon(sp):
    t, d, x = sp.upper().partition(b'.')
    return t + (b'.' + x if x else b'')


# (brackets are not wildcards in DOS: no name matches them)
MASKS = [b'*.*', b'a*', b'*.c', b'A?.*', b'*.DAT', b'?', b'a[b]', b'[a]b.c', b'a[!x].*']


def dos_match(mask, name):
    """DOS wildcard match of a canonical 8.3 name: trunk and extension are matched separately, padded
    with blanks; * fills the rest of its part with ?; ? matches any character including the padding."""
    def part(m, width):
        out = b''
        for c in bytearray(m.upper()):
            if c == 0x2a:
                out += b'?' * (width - len(out))
                break
            out += bytes(bytearray([c]))
        return out.ljust(width)[:width]
    mt, _, mx = mask.partition(b'.')
    nt, _, nx = name.partition(b'.')
    pm = part(mt, 8) + part(mx, 3)
    pn = nt.ljust(8) + nx.ljust(3)
    return all(a == 0x3f or a == b for a, b in zip(bytearray(pm), bytearray(pn)))


def bfs_ops():
    ops = [('C', s) for s in SPELL] + [('K', s) for s in SPELL] + [('K', m) for m in MASKS]
    ops += [('R', a, b) for a in SPELL for b in SPELL]
    return ops


def apply_model(model, op):
    """-> (new model, expected error or None)."""
    m = dict(model)
    if op[0] == 'C':
        m[canon(op[1])] = op[1] + b'\r\n'
        return m, None
    if op[0] in 'SL':
        # program files: a name without a dot gets the extension .BAS
        name = canon(op[1]) if b'.' in op[1] else canon(op[1]) + b'.BAS'
        if op[0] == 'S':
            m[name] = PROGRAM_TEXT
            return m, None
        return m, (None if m.get(name) == PROGRAM_TEXT else 53)
    if op[0] == 'K' and op[1] in MASKS:
        hit = [k for k in m if dos_match(op[1], k)]
        for k in hit:
            del m[k]
        return m, (None if hit else 53)
    if op[0] == 'K':
        if canon(op[1]) in m:
            del m[canon(op[1])]
            return m, None
        return m, 53
    a, b = canon(op[1]), canon(op[2])
    if a not in m:
        return m, 53
    if b in m:
        return m, 58
    m[b] = m.pop(a)
    return m, None


PROGRAM_LINE = b'1 REM'
PROGRAM_TEXT = b'1 REM\r\n'


def stmt_of(op):
    if op[0] == 'S':
        return b'SAVE "%s",A' % op[1]
    if op[0] == 'L':
        return b'LOAD "%s"' % op[1]
    if op[0] == 'C':
        return b'OPEN "%s" FOR OUTPUT AS 1:PRINT#1,"%s";:PRINT#1,CHR$(13);CHR$(10);:CLOSE 1' % (op[1], op[1])
    if op[0] == 'K':
        return b'KILL "%s"' % op[1]
    return b'NAME "%s" AS "%s"' % (op[1], op[2])


def _strip_eof(b):
    return b[:-1] if b.endswith(b'\x1a') else b


def expand_hist(hist):
    out = []
    with Env() as e:
        def replay():
            e.clear()
            model = {}
            for op in hist:
                e.run(stmt_of(op))
                model, _ = apply_model(model, op)
            return model
        model = replay()
        base = dict((k, _strip_eof(v)) for k, v in e.listing().items())
        if base != model:
            raise CheckError('C28 hist: replay of %r gives %r, model %r' % (hist, base, model))
        for op in bfs_ops():
            exp_model, exp_err = apply_model(model, op)
            r = e.run(stmt_of(op))
            now = dict((k, _strip_eof(v)) for k, v in e.listing().items())
            viols = []
            kind = {'C': 'create', 'K': 'kill', 'R': 'rename'}[op[0]]
            if r.exc is not None:
                viols.append(('hist/host-exception/%s' % H.exc_key(r.exc), '%r after %r raised %r' % (op, hist, r.exc)))
                e.fresh()
            elif r.err != exp_err:
                viols.append(('hist/%s/error-%s-expected-%s' % (kind, r.err, exp_err),
                              '%s after %r: BASIC error %r, model expects %r (directory before: %r)' % (
                                  stmt_of(op), list(hist), r.err, exp_err, sorted(model))))
            elif now != exp_model:
                viols.append(('hist/%s/host-directory' % kind,
                              '%s after %r: host directory %r, model %r' % (stmt_of(op), list(hist), now, exp_model)))
            key = None
            if not viols:
                key = tuple(sorted(now.items()))
            info = '%s:%s' % (kind, r.err if r.err is not None else 'ok')
            out.append((op, key, viols, info))
            if now != model:
                replay()
    return out


# all short sequences, no state merging: a session may carry state that the host directory does not show

SEQ_OPS = [('K', b'ab'), ('K', b'AB.C'), ('K', b'x1.dat')] + [('K', m) for m in MASKS] + [
    ('C', b'ab'), ('C', b'aB.c'), ('R', b'ab', b'x1.dat'), ('R', b'AB.C', b'ab'), ('R', b'x1.dat', b'q.c'),
    # program files under the same dotless name as a data file (ab -> AB.BAS next to AB)
    ('S', b'ab'), ('L', b'ab'), ('L', b'AB')]
SEQ_START = [b'ab', b'AB.C', b'x1.dat']


def work_seq(shard):
    part = Partial()
    with Env() as e:
        for seq in shard:
            e.fresh()
            e.clear()
            model = {}
            e.run(PROGRAM_LINE)
            for sp in SEQ_START:
                e.run(stmt_of(('C', sp)))
                model, _ = apply_model(model, ('C', sp))
            for i, op in enumerate(seq):
                model, exp_err = apply_model(model, op)
                r = e.run(stmt_of(op))
                now = dict((k, _strip_eof(v)) for k, v in e.listing().items())
                case = {'seq': [[x.decode('latin-1') if isinstance(x, bytes) else x for x in o] for o in seq]}
                kind = {'C': 'create', 'K': 'kill', 'R': 'rename', 'S': 'save', 'L': 'load'}[op[0]]
                part.n += 1
                if r.exc is not None:
                    part.violation('seq/host-exception/%s' % H.exc_key(r.exc), '%r in %r raised %r' % (op, seq, r.exc), case)
                    break
                if r.err != exp_err:
                    part.violation('seq/%s/error-%s-expected-%s' % (kind, r.err, exp_err),
                                   'step %d of %r: BASIC error %r, model expects %r' % (i, [stmt_of(o) for o in seq], r.err, exp_err), case)
                    break
                if now != model:
                    part.violation('seq/%s/host-directory' % kind,
                                   'step %d of %r: host directory %r, model %r' % (i, [stmt_of(o) for o in seq], now, model), case)
                    break
            part.traces += 1
            part.classes.add('seq/%s/%s' % ('-'.join(o[0] + ('*' if o[0] == 'K' and o[1] in MASKS else '') for o in seq),
                                            'empty' if not model else 'files'))
    part.sample({'seq': repr(shard[0])})
    return part


def work_hist(shard):
    part = Partial()
    res = bfs.explore(expand_hist, [()], shard, part, root_key=(), chunk=1, label='hist')
    part.sample({'levels': res['levels'], 'fixed_point': res['fixed_point']})
    return part


###############################################################################

def legs(ctx):
    names = all_names()
    kinds = KINDS
    cases = [(n, k) for n in names for k in kinds]
    if ctx.quick:
        # quick: all names with the two main statements, and every 3rd name with the others
        cases = [(n, k) for i, n in enumerate(names) for k in kinds if k in ('OPEN-O', 'SAVE') or i % 3 == 0]
    out = [Leg('names', list(chunked(cases, 40)), work_names, exhaustive=True,
               bound='%d names (%d trunks x %d extension forms) x %s' % (
                   len(names), len(TRUNKS), len(EXTS),
                   '7 creating statements' if not ctx.quick else
                   '{OPEN OUTPUT, SAVE} (all names) and the 5 other creating statements (every 3rd name)'))]
    cn = char_names()
    ck = ['OPEN-O', 'SAVE'] if not ctx.quick else ['OPEN-O']
    out.append(Leg('chars', list(chunked([(n, k) for n in cn for k in ck], 40)), work_names, exhaustive=True,
                   bound='every byte 01..FF except \\ / : " as a trunk character and as an extension character '
                         '(%d names) x %s' % (len(cn), ' and '.join(ck))))
    cc = []
    for base, kk in ((b'abc.de', ('OPEN-O', 'SAVE')), (b'prg', ('SAVE',)), (b'dat', ('OPEN-R',))):
        for k in kk:
            cc += [(p_, k, base) for p_ in case_patterns(base)]
    out.append(Leg('caps', list(chunked(cc, 6)), work_caps, exhaustive=True,
                   bound='create under every capitalisation x open under every capitalisation: abc.de (32x32) for '
                         'OPEN OUTPUT and SAVE, prg (8x8, default extension) for SAVE, dat (8x8) for OPEN random'))
    out.append(Leg('host', [[h] for h in HOST_SETS], work_host, exhaustive=True,
                   bound='%d pre-existing host directory contents (8.3 names in lower/mixed/upper case, blank, '
                         'trailing dot; long, multi-dot, non-ASCII, illegal-character and hidden names)' % len(HOST_SETS)))
    out.append(Leg('hist', [4 if ctx.quick else 8], work_hist, exhaustive=True, serial=True,
                   bound='BFS over create/KILL/NAME histories on 6 spellings of 3 files and 6 KILL wildcard masks (%d operations per state), '
                         'depth <= %d or fixed point' % (len(bfs_ops()), 4 if ctx.quick else 8)))
    n = 3 if ctx.quick else 4
    seqs = [sq for k in range(2, n + 1) for sq in itertools.product(SEQ_OPS, repeat=k)]
    out.append(Leg('seq', list(chunked(seqs, 30)), work_seq, exhaustive=True,
                   bound='all %d sequences of 2..%d operations over %d (KILL by name and by 6 wildcard masks, create, NAME) from a '
                         'directory of 3 files, each on a fresh session and without merging states' % (len(seqs), n, len(SEQ_OPS))))
    return out


def replay(ctx, leg, case):
    if leg == 'seq':
        enc = lambda x: x.encode('latin-1') if isinstance(x, str) else x
        return work_seq([[tuple(enc(x) for x in o) for o in case['seq']]])
    part = Partial()
    if 'history' in case:
        hist = [tuple(op) for op in case['history']]
        for op, key, viols, info in expand_hist(tuple(hist[:-1])):
            if tuple(op) == hist[-1]:
                for k, w in viols:
                    part.violation(k, w, case)
        return part
    with Env() as e:
        if 'caps' in case:
            caps_scenario(part, e, case['caps'], case['kind'], case['base'])
        elif 'host' in case:
            host_scenario(part, e, case['host'])
        else:
            scenario(part, e, case['name'], case['kind'])
    return part
