"""
C21 - error trapping reports and resumes at the right place.

E1 over a bounded template grammar: the full product
    error source x position in the line x surrounding context x handler x trap state
(+ every ordered pair of sources, + ERROR n for every n) rendered to program text,
RUN on the real interpreter and compared (full PRINT trace including ERR/ERL as
printed by the handler, final message code and line) with models/minibasic.py,
which keeps a statement pointer for RESUME / RESUME NEXT.
"""
import re
from mc.core import Leg, Partial, CheckError, chunked
from mc import harness as H
from mc.progrun import Runner, judge
from models import minibasic as MB
from pcbasic.basic.base import error as _pcerror     # error numbers / message table only

PROPERTY = 'C21'
ENGINE = 'E1 domain (bounded program grammar)'
LEVEL = 'model_checking'
LEVEL_TEXT = (
    'The complete product of 12 error sources (ERROR n and real faults) x 6 positions in a '
    'multi-statement / IF line x 7 contexts (main, GOSUB depth 1-2, FOR, FOR on one line, WHILE, '
    'direct mode) x 15 handler shapes (each RESUME form, bounded retry, error and fault inside the '
    'handler, handler leaving by END / falling off / ON ERROR GOTO 0, no handler, handler disarmed) '
    'is run and compared statement by statement with a reference model of the statement pointer; '
    'plus all ordered pairs of sources and ERROR n for every n in 1..255.')
LEVEL_NOTE = ('Trusted: models/minibasic.py, the template renderer, PRINT of ERR/ERL, NEW between programs '
              '(violations are re-run on a fresh session).')
TECHNIQUE = ('bounded exhaustive enumeration of error-trapping programs on Session.execute(RUN) against an '
             'independent statement-pointer reference interpreter')
RULE = ('full product of the template dimensions; a case class is (source, position, context, handler, trap, '
        'final outcome); trivial = no error raised')
ASSUMPTIONS = [
    'observation through the public Session (program entry, RUN, direct line, captured output)',
    'unspecified, any final status accepted (trace up to that point must match): ON ERROR GOTO 0 inside the '
    'handler; END inside the handler; handler running off the end of the program; RESUME to a missing line',
    'unspecified: ERL for an error raised by a direct-mode statement (handlers print only ERR in that context)',
    'unspecified: whether RESUME without a pending error is offered to an armed ON ERROR trap or stops the '
    'program directly (both accepted; the code must be 20 and the line that of the RESUME)',
    'unspecified: a stray NEXT executed while a FOR loop is active (see C19)',
    'ERR and ERL are printed only inside the handler (their values after RESUME are not specified)',
    'float division by zero is only generated while ON ERROR is armed (otherwise it is a soft error in GW-BASIC)',
    'an error code without a message text is reported as "Unprintable error"',
]

###############################################################################
# template dimensions

P = lambda t: ('print', t)

SOURCES = {
    'ERROR5': [('error', 5)],
    'ERROR255': [('error', 255)],
    'ERROR73': [('error', 73)],
    'DIV0': [('let', 'Q', ('/', ('c', 1), ('v', 'D')))],
    'OVERFLOW': [('let', 'A%', ('c', 40000))],
    'TYPE': [('let', 'Q$', ('c', 1))],
    'NEXT': [('next', [None], None)],
    'RETURN': [('return',)],
    'READ': [('read', ['Z'])],
    # the item is read from the DATA line but the assignment fails in the READ statement: ERL is the line of the READ
    'READOVF': [('read', ['K%'])],
    'GOTO': [('goto', 7777)],
    # a refused ON ERROR GOTO (no such line): the trap that is armed stays armed
    'ONERRBAD': [('onerror', 7777)],
    'RESUME': [('resume', None)],
    'RESUMENEXT': [('resume', 'next')],
}
SOURCE_ORDER = ['ERROR5', 'ERROR255', 'ERROR73', 'DIV0', 'OVERFLOW', 'TYPE', 'NEXT', 'RETURN', 'READ', 'READOVF',
                'GOTO', 'ONERRBAD', 'RESUME', 'RESUMENEXT']

POSITIONS = ['alone', 'first', 'middle', 'last', 'then', 'else']
CONTEXTS = ['main', 'gosub1', 'gosub2', 'for', 'forline', 'while', 'direct']
HANDLERS = ['next', 'barenext', 'retry', 'retry0', 'line', 'err', 'fault', 'off', 'end', 'fall', 'multi', 'gosub',
            'if', 'rearm']
TRAPS = ['armed', 'none', 'disarmed']


def site(source, pos):
    e = list(SOURCES[source])
    if pos == 'alone':
        return e
    if pos == 'first':
        return e + [P('x'), P('y')]
    if pos == 'middle':
        return [P('x')] + e + [P('y')]
    if pos == 'last':
        return [P('x'), P('y')] + e
    if pos == 'rearmed':
        # after a statement that takes no further argument (here the trap armed once more): in the spaced layout
        # the blank before the separator is left for the next statement to skip
        return [P('x'), ('onerror', 1000)] + e + [P('y')]
    if pos == 'then':
        return [('if', ('c', 1), None)] + e + [P('x'), ('else', None), P('y')]
    if pos == 'else':
        return [('if', ('c', 0), None), P('x'), ('else', None)] + e + [P('y')]
    raise CheckError(pos)


def handler_lines(h, direct):
    pe = [('printerrno',)] if direct else [('printerr',)]
    if h == 'next':
        return [(1000, pe + [('resume', 'next')])]
    if h == 'barenext':
        # a handler that evaluates nothing at all
        return [(1000, [('resume', 'next')])]
    if h in ('retry', 'retry0'):
        return [(1000, pe + [('let', 'C', ('+', ('v', 'C'), ('c', 1))), ('let', 'D', ('c', 1)),
                             ('if', ('rel', '<', ('v', 'C'), ('c', 2)), None),
                             ('resume', None if h == 'retry' else 0)]),
                (1010, [('resume', 'next')])]
    if h == 'line':
        return [(1000, pe + [('resume', 800)])]
    if h == 'err':
        return [(1000, pe + [('error', 7)])]
    if h == 'fault':
        return [(1000, pe + [('let', 'B%', ('c', -40000))])]
    if h == 'off':
        return [(1000, pe + [('onerror', 0)]), (1010, [P('o'), ('resume', 'next')])]
    if h == 'end':
        return [(1000, pe + [('end',)])]
    if h == 'fall':
        return [(1000, pe)]
    if h == 'multi':
        return [(1000, [('printerrno',)]), (1010, [P('h')] if direct else [('printerl',)]),
                (1020, [('resume', 'next')])]
    if h == 'gosub':
        return [(1000, [('gosub', 1100), ('resume', 'next')]), (1100, pe + [('return',)])]
    if h == 'if':
        return [(1000, pe + [('if', ('rel', '=', ('ERR',), ('c', 5)), None), ('resume', 'next'),
                             ('else', None), ('resume', 800)])]
    if h == 'rearm':
        return [(1000, pe + [('onerror', 1000), ('resume', 'next')])]
    raise CheckError(h)


def build(source, pos, ctx, h, trap, second=None):
    """-> (lines, direct statements or None)"""
    st = site(source, pos)
    if second is not None:
        st2 = site(second, 'middle')
    lines = []
    if trap == 'armed':
        lines.append((10, [('onerror', 1000)]))
    elif trap == 'disarmed':
        lines.append((10, [('onerror', 1000), ('onerror', 0)]))
    else:
        lines.append((10, [('rem', 'no trap')]))
    lines.append((20, [('let', 'D', ('c', 0)), ('let', 'C', ('c', 0))]))
    direct = None
    sites = [st] + ([st2] if second is not None else [])
    if ctx == 'main':
        for i, s_ in enumerate(sites):
            lines.append((100 + 10 * i, s_))
        lines.append((150, [P('m')]))
    elif ctx == 'gosub1':
        lines.append((100, [('gosub', 300), P('g')]))
        lines.append((150, [P('m')]))
    elif ctx == 'gosub2':
        lines.append((100, [('gosub', 300), P('g')]))
        lines.append((150, [P('m')]))
    elif ctx == 'for':
        lines.append((100, [('for', 1, 'I', ('c', 1), ('c', 2), None)]))
        for i, s_ in enumerate(sites):
            lines.append((110 + 10 * i, s_))
        lines.append((140, [('next', [1], None)]))
        lines.append((150, [P('m')]))
    elif ctx == 'forline':
        body = []
        for s_ in sites:
            body += s_
        lines.append((100, [('for', 1, 'I', ('c', 1), ('c', 2), None)] + body + [('next', [1], None)]))
        lines.append((150, [P('m')]))
    elif ctx == 'while':
        lines.append((100, [('let', 'W', ('c', 0))]))
        lines.append((105, [('while', 1, ('rel', '<', ('v', 'W'), ('c', 2)))]))
        lines.append((110, [('let', 'W', ('+', ('v', 'W'), ('c', 1)))]))
        for i, s_ in enumerate(sites):
            lines.append((115 + 10 * i, s_))
        lines.append((140, [('wend', 1)]))
        lines.append((150, [P('m')]))
    elif ctx == 'direct':
        direct = []
        for s_ in sites:
            direct += s_
        lines.append((150, [P('m')]))
    else:
        raise CheckError(ctx)
    lines.append((800, [P('r')]))
    lines.append((900, [('end',)]))
    if 'READOVF' in (source, second):
        # (identical items, more than any handler re-reads: whether the failed READ consumed its item is not observable)
        lines.append((950, [('data', ' ' + ','.join(['40000'] * 24))]))
    if ctx == 'gosub1':
        for i, s_ in enumerate(sites):
            lines.append((300 + 10 * i, s_))
        lines.append((350, [P('s'), ('return',)]))
        lines.sort(key=lambda l: l[0])
    elif ctx == 'gosub2':
        lines.append((300, [('gosub', 400), P('h')]))
        lines.append((310, [('return',)]))
        for i, s_ in enumerate(sites):
            lines.append((400 + 10 * i, s_))
        lines.append((450, [P('s'), ('return',)]))
    lines.sort(key=lambda l: l[0])
    lines.extend(handler_lines(h, ctx == 'direct'))
    return lines, direct


HIGH_SHIFT = 40000


def shift_stmt(st, off):
    k = st[0]
    if k in ('goto', 'gosub'):
        return (k, st[1] + off)
    if k == 'if':
        return ('if', st[1], None if st[2] is None else st[2] + off)
    if k == 'else':
        return ('else', None if st[1] is None else st[1] + off)
    if k == 'on':
        return ('on', st[1], st[2], [n + off for n in st[3]])
    if k == 'onerror':
        return ('onerror', st[1] + off if st[1] else st[1])
    if k == 'resume':
        return ('resume', st[1] + off if isinstance(st[1], int) and st[1] else st[1])
    if k == 'restore':
        return ('restore', None if st[1] is None else st[1] + off)
    return st


def shift_lines(lines, direct, off):
    """The same program with every line number and every reference moved up by `off`."""
    lines = [(n + off, [shift_stmt(st, off) for st in sts]) for n, sts in lines]
    if direct is not None:
        direct = [shift_stmt(st, off) for st in direct]
    return lines, direct


def valid(source, pos, ctx, h, trap):
    if ctx == 'forline' and pos in ('then', 'else'):
        return False        # the NEXT would become part of the IF branch
    if source == 'DIV0' and trap != 'armed':
        return False        # soft error in GW-BASIC
    if source == 'DIV0' and h in ('err', 'fault', 'off', 'end', 'fall'):
        pass
    if trap != 'armed' and h != 'next':
        return False        # the handler is never entered: one representative
    return True


def cases_main():
    out = []
    for source in SOURCE_ORDER:
        for pos in POSITIONS:
            for ctx in CONTEXTS:
                for trap in TRAPS:
                    for h in HANDLERS:
                        if valid(source, pos, ctx, h, trap):
                            out.append((source, pos, ctx, h, trap, None))
    return out


def cases_high(quick):
    """The main product in one position, every line number moved beyond 32767."""
    return [c + (HIGH_SHIFT,) for c in cases_main()
            if c[1] == 'middle' and (not quick or c[2] in ('main', 'gosub1', 'for', 'direct'))]


def cases_spaced(quick):
    """The product in two positions written with a blank before every separator."""
    out = []
    for source in SOURCE_ORDER:
        for pos in ('middle', 'rearmed'):
            for ctx in CONTEXTS:
                for h in HANDLERS:
                    if valid(source, pos, ctx, h, 'armed') and (not quick or ctx in ('main', 'gosub1', 'forline', 'direct')):
                        out.append((source, pos, ctx, h, 'armed', None, 'spaced'))
    return out


def cases_pairs(quick):
    out = []
    srcs = [s for s in SOURCE_ORDER if s != 'ERROR73']
    for a in srcs:
        for b in srcs:
            for ctx in (['main', 'gosub1'] if quick else CONTEXTS):
                for h in (['next', 'retry'] if quick else HANDLERS):
                    out.append((a, 'middle', ctx, h, 'armed', b))
    return out


def norm_code(c):
    """Codes without a message are reported as 'Unprintable error' (-1 from the harness)."""
    return c if c in _pcerror.BASICError.messages else -1


class _O(object):
    """Outcome with the final error code normalised to what the message can tell."""

    def __init__(self, o):
        self.trace = o.trace
        self.notes = o.notes
        self.steps = o.steps
        f = o.final
        if f[0] == 'err':
            f = ('err', norm_code(f[1]), f[2])
        self.final = f


def run_case(part, runner, case, leg):
    source, pos, ctx, h, trap, second = case[:6]
    lines, direct = build(source, pos, ctx, h, trap, second)
    if len(case) > 6 and case[6] == 'spaced':
        # a blank before every statement separator and list comma
        MB.LAYOUT = 'spaced'
        try:
            return _run_built(part, runner, case, lines, direct)
        finally:
            MB.LAYOUT = 'tight'
    if len(case) > 6:
        # line numbers beyond 32767 (ERL is not a 16-bit signed quantity)
        lines, direct = shift_lines(lines, direct, case[6])
    return _run_built(part, runner, case, lines, direct)


def _run_built(part, runner, case, lines, direct):
    source, pos, ctx, h, trap, second = case[:6]
    c = {'case': list(case), 'program': [t.decode('latin-1') for t in MB.program_text(lines)],
         'direct': MB.line_text(direct) if direct else None}

    def keyinfo(outcomes, res):
        return '%s/%s/%s/%s/%s%s/exp-%s' % (
            source, pos, ctx, h, trap, '' if second is None else '/then-' + second, kind(outcomes[0]))
    outcomes, res = judge(
        part, runner, lines, c, keyinfo,
        direct=MB.line_text(direct).encode('ascii') if direct else None, direct_model=direct,
        wrap=_O)
    part.n += 1
    k = kind(outcomes[0])
    part.classes.add('%s/%s/%s/%s%s' % (source, ctx, h if trap == 'armed' else trap, k, ('/spaced' if case[6] == 'spaced' else '/high-lines') if len(case) > 6 else ''))
    part.outcome(k)
    return c


def kind(o):
    f = o.final
    if f[0] == 'err':
        return 'E%d' % f[1]
    return f[0]


def work_cases(shard):
    part = Partial()
    runner = Runner()
    c = None
    for case in shard:
        c = run_case(part, runner, tuple(case), 'product')
    if c:
        part.sample(c)
    return part


# what is left behind when the program stops with an error inside its handler, and execution goes on
# from direct mode without RUN

AFTER_HANDLERS = ['err', 'fault']
AFTER_SOURCES = ['ERROR5', 'OVERFLOW', 'READ', 'GOTO']
AFTER_DIRECT = [
    [('goto', 10)], [('goto', 20)], [('resume', None)], [('resume', 'next')], [('error', 11)],
    [P('z'), ('gosub', 800)], [('onerror', 0), ('goto', 10)],
]


def afterstop_cases():
    out = []
    for src in AFTER_SOURCES:
        if src not in SOURCES:
            continue
        for h in AFTER_HANDLERS:
            for di in range(len(AFTER_DIRECT)):
                for twice in (False, True):
                    out.append((src, h, di, twice))
    return out


def work_afterstop(shard):
    from mc.progrun import split_output
    part = Partial()
    runner = Runner()
    c = None
    for src, h, di, twice in shard:
        lines = [(5, [('onerror', 1000)]), (10, [P('a')] + list(SOURCES[src]) + [P('b')]), (20, [P('c')]), (30, [('end',)]),
                 (800, [P('s'), ('return',)])] + handler_lines(h, True)
        direct = list(AFTER_DIRECT[di])
        text = MB.program_text(lines)
        c = {'case': [src, h, di, twice], 'program': [t.decode('latin-1') for t in text], 'direct': MB.line_text(direct)}
        # reference: the program, then the direct line (once or twice) on the state it left
        variants = []
        todo = [[]]
        while todo:
            ch = todo.pop()
            m = MB.Machine(lines, ch)
            steps = [m.run()]
            for _ in range(2 if twice else 1):
                before = len(''.join(m.trace))
                o = m.run(direct=direct)
                o.trace = o.trace[before:]
                steps.append(o)
            for j, ar in enumerate(m.choice_arity):
                for alt in range(1, ar):
                    todo.append(m.choices[:len(ch) + j] + [alt])
            variants.append(steps)
            if len(variants) > 8:
                raise CheckError('too many model variants for %r' % (c,))
        res = runner.run_program(text, horizon=600)
        part.n += 1
        part.traces += 1
        got = [(res['trace'], res['final'])]
        bad = None
        if res['exc'] is not None or res['horizon']:
            bad = ('after-stop/%s' % ('host-exception/' + H.exc_key(res['exc']) if res['exc'] is not None else 'no-termination'), repr(res['exc']))
        else:
            for _ in range(2 if twice else 1):
                r = H.run(runner.s, MB.line_text(direct).encode('ascii'))
                if r.exc is not None:
                    bad = ('after-stop/host-exception/' + H.exc_key(r.exc), repr(r.exc))
                    runner.s = None
                    break
                got.append(split_output(r.out))
        if bad is None:
            firstbad = None
            for steps in variants:
                vbad = None
                for k, (o, g) in enumerate(zip(steps, got)):
                    if o.final[0] == 'unspec':
                        break
                    exp = (o.trace, _O(o).final)
                    if (g[0], g[1]) != exp and (g[0], g[1][:2]) != (exp[0], exp[1][:2]):
                        what = 'the program' if k == 0 else 'direct line %r (%d. time)' % (MB.line_text(direct), k)
                        vbad = ('after-stop/%s/%s/%s' % (h, MB.line_text(direct).split(' ')[0], 'program' if k == 0 else 'continuation-%d' % k),
                                '%s printed %r and ended %r; reference %r, %r' % (what, g[0], g[1], exp[0], exp[1]))
                        break
                if vbad is None:
                    firstbad = None
                    break
                firstbad = firstbad or vbad
            bad = firstbad
            steps = variants[0]
        if bad:
            part.violation(bad[0], '%s: program %s' % (bad[1], b' / '.join(text).decode('latin-1')), c)
        kd = kind(steps[-1])
        part.classes.add('after-stop/%s/%s/%s' % (src, h, kd))
        part.outcome(kd)
    if c:
        part.sample(c)
    return part


def work_codes(shard):
    """ERROR n for every n: ERR in the handler, message without handler, in direct mode."""
    part = Partial()
    runner = Runner()
    for n in shard:
        for mode in ('trap', 'plain', 'direct', 'direct-trap'):
            lines = []
            direct = None
            if mode in ('trap', 'direct-trap'):
                lines.append((10, [('onerror', 1000)]))
            else:
                lines.append((10, [('rem', 'x')]))
            if mode in ('trap', 'plain'):
                lines.append((20, [P('a'), ('error', n), P('b')]))
            else:
                direct = [P('a'), ('error', n), P('b')]
            lines.append((900, [('end',)]))
            lines.append((1000, [('printerrno',) if direct else ('printerr',), ('resume', 'next')]))
            c = {'code': n, 'mode': mode, 'program': [t.decode('latin-1') for t in MB.program_text(lines)]}
            outcomes, res = judge(
                part, runner, lines, c, lambda oc, rs: 'codes/ERROR-%d/%s' % (n, mode),
                direct=MB.line_text(direct).encode('ascii') if direct else None, direct_model=direct,
                wrap=_O)
            part.n += 1
            part.classes.add('codes/%s/%s' % (mode, 'printable' if norm_code(n) == n else 'unprintable'))
            part.outcome(kind(outcomes[0]) if mode in ('plain', 'direct') else 'trapped')
    part.sample(c)
    return part


# ---------------------------------------------------------------------------
# STOP followed by CONT is transparent, also right after a trapped error

SC_CONTEXTS = ['main', 'gosub1', 'for']
SC_HANDLERS = ['next', 'barenext', 'retry', 'retry0', 'line', 'multi', 'gosub', 'if', 'rearm']
BREAK_RE = re.compile(br'Break in \d+')


def stopcont_cases():
    out = []
    for source in SOURCE_ORDER:
        for pos in POSITIONS:
            for ctx in SC_CONTEXTS:
                for h in SC_HANDLERS:
                    if valid(source, pos, ctx, h, 'armed'):
                        out.append((source, pos, ctx, h))
    return out


def _sc_run(s, text, stop_line, cont):
    """Enter and RUN the program (CONT after every Break if asked).  -> (output without Break messages, last error, breaks)"""
    r = H.run(s, b'LOCATE 1,1:ON ERROR GOTO 0:NEW')
    if r.exc is not None or r.err is not None:
        return None
    for l in text:
        r = H.run(s, l)
        if r.exc is not None or r.out.strip():
            raise CheckError('line not accepted: %r -> %r' % (l, r))
    H.run(s, stop_line)
    out = b''
    breaks = 0
    cmd = b'RUN'
    for _ in range(12):
        r = H.run(s, cmd)
        if r.exc is not None:
            return ('exc', repr(r.exc), breaks)
        stopped = BREAK_RE.search(r.out) is not None
        # (STOP starts a new line for its message: line ends are not compared)
        out += BREAK_RE.sub(b'', r.out).replace(b'\r', b'').replace(b'\n', b'').replace(b'\xff', b'')
        if not (cont and stopped):
            return (out, r.err, breaks)
        breaks += 1
        cmd = b'CONT'
    return (out, 'too-many-breaks', breaks)


def work_stopcont(shard):
    part = Partial()
    s = H.new_session(horizon=4000)
    c = None
    for source, pos, ctx, h in shard:
        lines, direct = build(source, pos, ctx, h, 'armed', None)
        text = MB.program_text(lines)
        # the statement after the failing line: 145 (main), 345 (subroutine), 135 (loop body)
        n = {'main': 145, 'gosub1': 345, 'for': 135}[ctx]
        case = {'case': [source, pos, ctx, h], 'program': [t.decode('latin-1') for t in text], 'stop': n}
        results = []
        for stop_line, cont in ((b'%d PRINT "#";' % n, False), (b'%d STOP' % n, True)):
            res = _sc_run(s, text, stop_line, cont)
            if res is None:
                s.close()
                s = H.new_session(horizon=4000)
                res = _sc_run(s, text, stop_line, cont)
            results.append(res)
        part.n += 1
        part.traces += 1
        ref, got = results
        if got[0] == 'exc':
            part.violation('stop-cont/host-exception', 'with %d STOP: %s' % (n, got[1]), case)
        elif ref[0] == 'exc':
            pass        # (the product leg reports it)
        elif (got[0], got[1]) != (ref[0].replace(b'#', b''), ref[1]) or got[2] != ref[0].count(b'#'):
            part.violation('stop-cont/%s/%s/differs-from-uninterrupted' % (source, h),
                           'with %d PRINT "#"; the program prints %r (error %r); with %d STOP and CONT after every Break (%d) it prints %r (error %r)' % (
                               n, ref[0][-60:], ref[1], n, got[2], got[0][-60:], got[1]), case)
        part.classes.add('stop-cont/%s/%s/breaks%d' % (ctx, h, min(got[2], 3) if got[0] != 'exc' else -1))
        c = case
    s.close()
    if c:
        part.sample(c)
    return part


def legs(ctx):
    return _legs_model(ctx) + [
        Leg('stop-cont', list(chunked(stopcont_cases(), 60)), work_stopcont, exhaustive=True,
            bound='%d programs (all sources x positions x 3 contexts x 9 resuming handlers, trap armed) with a STOP right after the '
                  'failing line, continued with CONT after every Break: output and final error equal those of the same program '
                  'with a marker PRINT in place of STOP, and there are as many Breaks as markers' % len(stopcont_cases()))]


def _legs_model(ctx):
    main = cases_main()
    pairs = cases_pairs(ctx.quick)
    out = [
        Leg('product', list(chunked(main, 60)), work_cases, exhaustive=True,
            bound='%d programs: %d sources x %d positions x %d contexts x (%d handlers armed + no trap + '
                  'disarmed trap), minus invalid combinations' % (
                      len(main), len(SOURCE_ORDER), len(POSITIONS), len(CONTEXTS), len(HANDLERS))),
        Leg('pairs', list(chunked(pairs, 60)), work_cases, exhaustive=True,
            bound='%d programs: all ordered pairs of %d sources in consecutive lines x contexts x handlers' % (len(pairs), len(SOURCE_ORDER) - 1)),
        Leg('high-lines', list(chunked(cases_high(ctx.quick), 60)), work_cases, exhaustive=True,
            bound='%d programs: the product at one position with every line number and reference moved up by %d '
                  '(all lines beyond 32767)' % (len(cases_high(ctx.quick)), HIGH_SHIFT)),
        Leg('spaced', list(chunked(cases_spaced(ctx.quick), 60)), work_cases, exhaustive=True,
            bound='%d programs: the armed product at two positions (between two PRINTs; right after a statement without further '
                  'arguments) written with a blank before every statement separator and list comma' % len(cases_spaced(ctx.quick))),
        Leg('after-stop', list(chunked(afterstop_cases(), 20)), work_afterstop, exhaustive=True,
            bound='%d programs stopped by an error inside their handler x %d direct-mode continuations without RUN (GOTO back in, '
                  'RESUME, ERROR, GOSUB): the trap must catch again, RESUME has nothing to resume' % (
                      len(afterstop_cases()), len(AFTER_DIRECT))),
        Leg('codes', list(chunked(list(range(1, 256)), 8)), work_codes, exhaustive=True,
            bound='ERROR n for every n in 1..255 x {trapped, untrapped, direct, direct trapped}'),
    ]
    return out


def replay(ctx, leg, case):
    part = Partial()
    runner = Runner()
    if leg == 'stop-cont':
        return work_stopcont([tuple(case['case'])])
    if leg in ('product', 'pairs', 'high-lines', 'spaced'):
        run_case(part, runner, tuple(case['case']), leg)
    else:
        return work_codes([case['code']])
    return part
