"""
C39 - RND is a deterministic full-period sequence in [0, 1).

E1 (whole state space on the real Randomiser, plus bounded histories on real sessions):
  orbit      : the orbit of Randomiser._cycle from the initial seed, all 2^24 steps, cut into
               segments whose start states come from the reference jump-ahead; every step is
               compared with the integer LCG, the initial seed may only re-appear at step 2^24
  scale      : RND (rnd_ with no argument) along the orbit and RND(0) on directly set states:
               the returned Single decodes *exactly* to seed/2^24, is in [0,1)
  randomize  : Randomiser.reseed for all 65536 integers, singles M24 x 255 exponents x sign,
               doubles M56 x 255 exponents x sign, from several previous states
  rnd-neg    : RND(x) for singles M24 x 256 exponents x sign and all negative integers,
               from several previous states
  stmt       : RANDOMIZE <value> / RND(<value>) through Session.execute (argument parsing,
               type check), two sessions give the same next 5 values
  history    : all op sequences up to depth d over {RND, RND(0), RND(1), RND(-1), RND(-2.5),
               RANDOMIZE 7, RANDOMIZE CINT(-3), CLEAR, RUN} on real sessions against the reference
Oracle: integer arithmetic only (a=214013, c=2531011, m=2^24 as documented in the manual).
"""
import struct

from mc.core import Leg, Partial, CheckError, chunked
from mc import num
from mc import nosleep
from pcbasic.basic.values import numbers as N
from pcbasic.basic.values.randomiser import Randomiser
from pcbasic.basic.base import error

PROPERTY = 'C39'
ENGINE = 'E1 domain'
LEVEL = 'model_checking'
LEVEL_TEXT = (
    'Every one of the 2^24 generator states is visited on the real Randomiser: the orbit of _cycle '
    'from the initial seed is walked completely (full period, each step equal to the integer LCG), '
    'and for every state the Single returned by RND is decoded exactly and compared with seed/2^24 '
    '(thorough: all 2^24 states; quick: 2^21 orbit states plus all states with a 00/FF byte). '
    'Reseeding is enumerated for all 65536 integers and for boundary mantissa patterns x all '
    'exponents of singles and doubles; call histories are enumerated exhaustively up to depth 4 '
    '(quick) / 5 (thorough) over 9 operations on real sessions.')
LEVEL_NOTE = (
    'Trusted: the integer reference LCG (constants from docs/source/reference.html, grounded against '
    'the recorded GW-BASIC outputs in tests/basic, asserted at start-up) and exact integer decoding of '
    'MBF singles. Float arguments outside the mantissa alphabets are not covered.')
TECHNIQUE = ('bounded exhaustive enumeration of generator states, reseed arguments and call histories '
             'on the real Randomiser / Session against an integer LCG reference')
RULE = ('states: all 2^24 (orbit order); arguments: all 65536 integers, M24/M56 mantissa patterns x '
        'all exponent bytes x sign; histories: all sequences up to the depth. A case class is '
        '(operation, argument type, sign/zero class, top bits of the state); non-trivial = everything '
        'except a plain RND step from a mid-range state')
ASSUMPTIONS = [
    'internal seam: values.randomiser.Randomiser._seed/_cycle/rnd_/reseed/clear; Session._impl.randomiser',
    'LCG constants (modulo 2^24, multiplier 214013, increment 2531011) are taken from the RND section of '
    'the manual; the initial seed 5228370 and the placement of the RANDOMIZE value in the two upper '
    'state bytes are grounded on the recorded GW-BASIC outputs tests/basic/unsorted/RND0, RANDOMIZ, '
    'gwbasic/RND_negative (asserted against the reference model at start-up)',
    'RANDOMIZE keeps the low byte of the previous state (as GW-BASIC does, see tests/basic/unsorted/'
    'RANDOMIZ lines 60/70: same 16-bit value, different numbers). The strict reading of the statement '
    '("RANDOMIZE with the same argument reseeds identically" from any state) is reported under the key '
    'randomize/previous-seed-low-byte-retained; dependence on anything else is a different key',
    'RND(x) with a double or integer x: only values exactly representable as singles are used '
    '(the CSNG rounding is not part of this property)',
    'RANDOMIZE without argument (prompt) is not explored',
]

A = 214013
C = 2531011
M = 1 << 24
MASK = M - 1
SEED0 = 5228370

BASICError = error.BASICError

nosleep.install()


def lcg(s):
    return (s * A + C) & MASK


def jump(s, k):
    """Reference state after k steps from s (affine map composition by squaring)."""
    a, c = 1, 0          # identity
    ba, bc = A, C        # one step
    while k:
        if k & 1:
            a, c = (ba * a) & MASK, (ba * c + bc) & MASK
        ba, bc = (ba * ba) & MASK, (ba * bc + bc) & MASK
        k >>= 1
    return (a * s + c) & MASK


def ref_randomize_n(b):
    """The documented 16-bit value of a RANDOMIZE argument (bytes of an Integer/Single/Double)."""
    b = bytes(b)
    lo, hi = b[-2], b[-1]
    if len(b) >= 4:
        lo ^= b[-4]
        hi ^= b[-3]
    return lo | (hi << 8)


def ref_randomize(old, b):
    return lcg((ref_randomize_n(b) << 8) | (old & 0xff))


def sng_mantissa(b):
    """24-bit mantissa (hidden bit included) of a single given as bytes."""
    return b[0] | (b[1] << 8) | ((b[2] | 0x80) << 16)


def decode_exact(b, seed):
    """Is the MBF single b exactly seed / 2^24?  Integer arithmetic only.
    Returns None if it is, else a short reason."""
    e = b[3]
    if e == 0:
        return None if seed == 0 else 'zero-for-nonzero-seed'
    if b[2] & 0x80:
        return 'negative'
    if e > 128:
        return 'not-below-one'
    man = sng_mantissa(b)
    # value = man * 2^(e-128-24); value * 2^24 = man * 2^(e-128) = man >> (128-e) ... exact?
    # seed must satisfy seed * 2^(24) * 2^(128-e) == man * 2^24  <=>  seed << (152-e) == man << 24
    if (seed << (152 - e)) != (man << 24):
        return 'not-seed/2^24'
    return None


def _ground_reference():
    """The reference model must reproduce the recorded GW-BASIC numbers (7 printed digits)."""
    from fractions import Fraction

    def close(seed, text):
        v = Fraction(seed, M)
        t = Fraction(text)
        # printed with at most 7 significant digits: within one unit of the seventh decimal
        tol = Fraction(1, 10 ** 7)
        return abs(v - t) <= tol

    # tests/basic/unsorted/RND0/model/OUTPUT: RND(0) first, then RND(0), RND(1), RND(2)
    s = SEED0
    seq = ['.3116351', '.3116351', '.1213501', '.651861', '.8688611', '.7297625']
    vals = [s, s]
    for _ in range(4):
        s = lcg(s)
        vals.append(s)
    for sd, t in zip(vals, seq):
        if not close(sd, t):
            raise CheckError('reference LCG disagrees with recorded GW-BASIC RND0: %r vs %s' % (sd, t))
    # tests/basic/gwbasic/RND_negative: RND(-1), RND(-2e34), RND
    s1 = lcg(0x800000)
    if not close(s1, '.65086'):
        raise CheckError('reference RND(-1) disagrees with recorded GW-BASIC output')
    # tests/basic/unsorted/RANDOMIZ lines 40,50: A%=1: RANDOMIZE A%: RND ; A%=-2: RANDOMIZE A%: RND
    s = ref_randomize(SEED0, struct.pack('<h', 1))
    s = lcg(s)
    if not close(s, '.4098261'):
        raise CheckError('reference RANDOMIZE 1 disagrees with recorded GW-BASIC output')
    s = ref_randomize(s, struct.pack('<h', -2))
    s = lcg(s)
    if not close(s, '.05028856'):
        raise CheckError('reference RANDOMIZE -2 disagrees with recorded GW-BASIC output')
    # line 60: A!=1 ; line 70: A#=1 (same 16-bit value, different previous low byte)
    s = ref_randomize(s, b'\0\0\0\x81')
    s = lcg(s)
    if not close(s, '.13484'):
        raise CheckError('reference RANDOMIZE 1! disagrees with recorded GW-BASIC output')
    s = ref_randomize(s, b'\0\0\0\0\0\0\0\x81')
    s = lcg(s)
    if not close(s, '.545263'):
        raise CheckError('reference RANDOMIZE 1# disagrees with recorded GW-BASIC output')


def _new_randomiser():
    vals = num.make_values()
    r = Randomiser(vals)
    for name in ('_seed', '_cycle', 'rnd_', 'reseed', 'clear'):
        if not hasattr(r, name):
            raise CheckError('Randomiser has no attribute %s' % name)
    return vals, r


def _state_class(s):
    return '%x' % (s >> 21)


# ---------------------------------------------------------------------------
# orbit

NSEG = 256
SEGLEN = M // NSEG


def work_orbit(shard):
    i, seglen, nseg = shard
    part = Partial()
    vals, r = _new_randomiser()
    if i == 0 and r._seed != SEED0:
        part.violation('clear/initial-seed', 'initial seed %d, expected %d' % (r._seed, SEED0),
                       {'seg': 0, 'seglen': 1, 'nseg': nseg})
    r.clear()
    if r._seed != SEED0:
        part.violation('clear/initial-seed', 'seed after clear() %d, expected %d' % (r._seed, SEED0),
                       {'seg': 0, 'seglen': 1, 'nseg': nseg})
    s = jump(SEED0, i * seglen)
    r._seed = s
    cyc = r._cycle
    last_global = nseg * seglen
    base = i * seglen
    bad = 0
    for k in range(1, seglen + 1):
        cyc()
        s = (s * A + C) & MASK
        got = r._seed
        if got != s:
            part.violation('cycle/not-lcg-step',
                           'state after step %d of the orbit: got %r, reference %d' % (base + k, got, s),
                           {'seg': i, 'seglen': seglen, 'nseg': nseg, 'step': k})
            bad += 1
            if bad > 3:
                break
            r._seed = s
            continue
        if got == SEED0 and base + k != last_global:
            part.violation('cycle/short-period', 'initial seed re-appears after %d < 2^24 steps' % (base + k),
                           {'seg': i, 'seglen': seglen, 'nseg': nseg, 'step': k})
    if i == nseg - 1 and nseg * seglen == M and not bad and r._seed != SEED0:
        part.violation('cycle/no-return-after-2^24', 'state after 2^24 steps is %r, not the initial seed' % (r._seed,),
                       {'seg': i, 'seglen': seglen, 'nseg': nseg, 'step': seglen})
    part.n += seglen
    part.traces += seglen
    part.classes.add('orbit-seg-top%x' % (i * 16 // nseg))
    part.outcome('step-ok', seglen - bad)
    part.sample({'seg': i, 'start_state': jump(SEED0, i * seglen), 'end_state': s})
    return part


# ---------------------------------------------------------------------------
# scale: value == seed / 2^24 exactly

def _check_value(part, v, seed, key, case):
    if not isinstance(v, N.Single):
        part.violation(key + '/not-a-single', 'RND returned %r' % (v,), case)
        return False
    b = bytes(v.to_bytes())
    why = decode_exact(b, seed)
    if why is not None:
        part.violation('%s/%s' % (key, why),
                       'RND value %s for seed %d is not seed/2^24 exactly (%s)' % (b.hex(), seed, why), case)
        return False
    return True


def work_scale(shard):
    kind = shard[0]
    part = Partial()
    vals, r = _new_randomiser()
    rnd = r.rnd_
    if kind == 'orbit':
        _, i, seglen = shard
        s = jump(SEED0, i * seglen)
        r._seed = s
        arg = (None,)
        classes = part.classes
        for k in range(seglen):
            v = rnd(iter(arg))
            s = (s * A + C) & MASK
            got = r._seed
            if got != s:
                part.violation('rnd/not-lcg-step', 'RND from state %d moved to %r, reference %d' % (
                    jump(SEED0, i * seglen + k), got, s), {'kind': 'orbit', 'seg': i, 'seglen': seglen, 'step': k})
                r._seed = s
            b = v._buffer
            e = b[3]
            # fast path of decode_exact (same integer test)
            if e == 0:
                ok = (s == 0)
            elif b[2] & 0x80 or e > 128:
                ok = False
            else:
                ok = (s << (152 - e)) == ((b[0] | (b[1] << 8) | ((b[2] | 0x80) << 16)) << 24)
            if not ok:
                _check_value(part, v, s, 'rnd/value', {'kind': 'orbit', 'seg': i, 'seglen': seglen, 'step': k})
            if e < 112:
                classes.add('rnd-tiny-e%d' % e)
        part.n += seglen
        part.traces += seglen
        part.classes.add('rnd-orbit-top%x' % (i * 16 * seglen // M))
        part.sample({'kind': 'orbit', 'seg': i, 'seglen': seglen})
    else:
        _, states = shard
        zero = vals.new_single()
        for s in states:
            r._seed = s
            v = rnd(iter((zero,)))
            if r._seed != s:
                part.violation('rnd0/state-changed', 'RND(0) in state %d moved to %r' % (s, r._seed),
                               {'kind': 'rnd0', 'state': s})
                continue
            _check_value(part, v, s, 'rnd0/value', {'kind': 'rnd0', 'state': s})
            part.classes.add('rnd0-bits%d' % s.bit_length())
        part.n += len(states)
        part.traces += len(states)
        part.sample({'kind': 'rnd0', 'states': states[:3]})
    return part


def _special_states():
    st = set()
    for x in range(1 << 16):
        for fill in (0x00, 0xff):
            st.add((x << 8) | fill)                       # low byte 00/FF
            st.add((fill << 16) | x)                      # high byte 00/FF
            st.add(((x >> 8) << 16) | (fill << 8) | (x & 0xff))   # middle byte 00/FF
    return sorted(st)


# ---------------------------------------------------------------------------
# RANDOMIZE

OLD_STATES = [SEED0, 0, MASK, 0x123456, 0x800001, 0xabcd52, 0x000052, 0xffff00]


def _show(val):
    """Readable BASIC form of an argument value."""
    b = bytes(val.to_bytes())
    if len(b) == 2:
        return 'A%%=%d: RANDOMIZE A%%' % struct.unpack('<h', b)[0]
    return 'RANDOMIZE %s(bytes %s = %r)' % ('CVS' if len(b) == 4 else 'CVD', b.hex(), val.to_value())


def _check_reseed(part, r, val, tname, arg_case):
    b = bytes(val.to_bytes())
    show = _show(val)
    first = None
    for old in OLD_STATES:
        r._seed = old
        try:
            r.reseed(val)
        except BASICError as e:
            part.violation('randomize/basic-error/%s' % tname, 'RANDOMIZE %s raised error %d' % (b.hex(), e.err),
                           dict(arg_case, old=old))
            continue
        except Exception as e:
            from mc.core import from_pcbasic
            if not from_pcbasic(e):
                raise
            part.violation('randomize/host-exception/%s/%s' % (type(e).__name__, tname), 'RANDOMIZE %s raised %r' % (b.hex(), e),
                           dict(arg_case, old=old))
            break
        got = r._seed
        exp = ref_randomize(old, b)
        case = dict(arg_case, old=old)
        if not (isinstance(got, int) and 0 <= got < M):
            part.violation('randomize/state-out-of-range/%s' % tname,
                           'RANDOMIZE %s from %d left state %r' % (b.hex(), old, got), case)
            continue
        if got != exp:
            part.violation('randomize/wrong-seed/%s' % tname,
                           '%s (16-bit value %d) from state %d: state %d, reference %d' % (
                               show, ref_randomize_n(b), old, got, exp), case)
        if first is None:
            first = (old, got)
        elif got != first[1]:
            if (old & 0xff) != (first[0] & 0xff):
                part.violation('randomize/previous-seed-low-byte-retained',
                               '%s gives state %d from state %d but %d from state %d: the low byte of the '
                               'previous state survives a reseed (BASIC: RANDOMIZE 7:PRINT RND differs from '
                               'X=RND:RANDOMIZE 7:PRINT RND)' % (show, first[1], first[0], got, old), case)
            else:
                part.violation('randomize/depends-on-previous-state',
                               '%s gives state %d from state %d but %d from state %d' % (
                                   show, first[1], first[0], got, old), case)
        part.n += 1
    part.traces += len(OLD_STATES)


def work_randomize(shard):
    kind = shard[0]
    part = Partial()
    vals, r = _new_randomiser()
    if kind == 'int':
        _, lo, hi = shard
        v = N.Integer(None, vals)
        for i in range(lo, hi):
            struct.pack_into('<h', v._buffer, 0, i)
            _check_reseed(part, r, v, 'int', {'kind': 'int', 'i': i})
        part.classes.add('rz-int%s' % ('-' if lo < 0 else '+'))
        part.sample({'kind': 'int', 'range': [lo, hi]})
    else:
        _, size, exps = shard
        nbits = (size - 1) * 8
        cls = N.Single if size == 4 else N.Double
        tname = 'sng' if size == 4 else 'dbl'
        v = cls(None, vals)
        mans = num.mantissa_patterns(nbits, rich=True)
        for e in exps:
            for m in mans:
                for neg in (False, True):
                    if e == 0:
                        b = (m & ((1 << (nbits - 1)) - 1) | (neg << (nbits - 1))).to_bytes(size - 1, 'little') + b'\0'
                    else:
                        b = num.pack_mbf(neg, e, m, size)
                    v._buffer[:] = b
                    _check_reseed(part, r, v, tname, {'kind': tname, 'bytes': b})
            part.classes.add('rz-%s-e%s' % (tname, 'zero' if e == 0 else ('lo' if e < 128 else 'hi')))
        part.sample({'kind': tname, 'exps': list(exps)[:3]})
    return part


# ---------------------------------------------------------------------------
# RND(x)

def work_rndneg(shard):
    kind = shard[0]
    part = Partial()
    vals, r = _new_randomiser()
    rnd = r.rnd_

    def check(val, tname, kindref, man, case):
        for old in OLD_STATES:
            r._seed = old
            try:
                v = rnd(iter((val,)))
            except BASICError as e:
                part.violation('rndx/basic-error/%s' % tname, 'RND(%r) raised %d' % (val, e.err), dict(case, old=old))
                continue
            if kindref == 'neg':
                exp = lcg(man)
            elif kindref == 'zero':
                exp = old
            else:
                exp = lcg(old)
            got = r._seed
            c = dict(case, old=old)
            if got != exp:
                key = 'rndx/%s-argument-wrong-state/%s' % (kindref, tname)
                part.violation(key, 'RND(%r) from state %d: state %r, reference %d' % (val, old, got, exp), c)
                continue
            _check_value(part, v, exp, 'rndx/value/%s' % kindref, c)
            part.n += 1
        part.traces += len(OLD_STATES)

    if kind == 'sng':
        _, exps = shard
        v = N.Single(None, vals)
        mans = num.mantissa_patterns(24, rich=True)
        for e in exps:
            for m in mans:
                for neg in (False, True):
                    if e == 0:
                        b = ((m & 0x7fffff) | (neg << 23)).to_bytes(3, 'little') + b'\0'
                        kr = 'zero'
                    else:
                        b = num.pack_mbf(neg, e, m, 4)
                        kr = 'neg' if neg else 'pos'
                    v._buffer[:] = b
                    check(v, 'sng', kr, m, {'kind': 'sng', 'bytes': b})
                    part.classes.add('rndx-sng-%s-e%s' % (kr, 'lo' if e < 128 else 'hi'))
        part.sample({'kind': 'sng', 'exps': list(exps)[:3]})
    elif kind == 'int':
        _, lo, hi = shard
        v = N.Integer(None, vals)
        for i in range(lo, hi):
            struct.pack_into('<h', v._buffer, 0, i)
            if i < 0:
                m = -i
                m <<= 24 - m.bit_length()
                kr = 'neg'
            elif i == 0:
                m, kr = 0, 'zero'
            else:
                m, kr = 0, 'pos'
            check(v, 'int', kr, m, {'kind': 'int', 'i': i})
            part.classes.add('rndx-int-' + kr)
        part.sample({'kind': 'int', 'range': [lo, hi]})
    else:
        # doubles that are exactly singles (low four bytes zero)
        _, exps = shard
        v = N.Double(None, vals)
        mans = num.mantissa_patterns(24, rich=False)
        for e in exps:
            for m in mans:
                for neg in (False, True):
                    if e == 0:
                        continue
                    b = b'\0\0\0\0' + num.pack_mbf(neg, e, m, 4)
                    v._buffer[:] = b
                    kr = 'neg' if neg else 'pos'
                    check(v, 'dbl', kr, m, {'kind': 'dbl', 'bytes': b})
                    part.classes.add('rndx-dbl-' + kr)
        part.sample({'kind': 'dbl', 'exps': list(exps)[:3]})
    return part


# ---------------------------------------------------------------------------
# statements through the interpreter

def _bytes_expr(fn, b):
    return fn + b'(' + b'+'.join(b'CHR$(%d)' % x for x in b) + b')'


def _stmt_args():
    """(BASIC expression, value bytes) for the statement leg."""
    out = []
    for i in (-32768, -32767, -256, -255, -3, -2, -1, 0, 1, 2, 7, 255, 256, 257, 32766, 32767):
        # a negative literal is a unary minus on a positive constant, which pcbasic evaluates as a
        # Single; CINT makes the argument an Integer again (typing of -n is not this property)
        out.append((b'%d' % i if i >= 0 else b'CINT(%d)' % i, struct.pack('<h', i)))
    for e in (1, 2, 104, 127, 128, 129, 144, 152, 153, 254, 255):
        for m in (0x800000, 0xffffff, 0x800001, 0xa00000, 0xc90fda):
            for neg in (False, True):
                b = num.pack_mbf(neg, e, m, 4)
                out.append((_bytes_expr(b'CVS', b), b))
    for e in (1, 128, 129, 255):
        for m in (1 << 55, (1 << 56) - 1, (1 << 55) | 1, 0xc90fdaa22168c2, 0x80000001000000, 0x800000ff000000):
            for neg in (False, True):
                b = num.pack_mbf(neg, e, m, 8)
                out.append((_bytes_expr(b'CVD', b), b))
    return out


def work_stmt(shard):
    from mc import harness as H
    part = Partial()
    args = _stmt_args()
    for idx in shard:
        expr, b = args[idx]
        case = {'idx': idx, 'expr': expr, 'bytes': b}
        # RANDOMIZE in two fresh sessions, after one RND in a third
        seqs = []
        for pre in (b'', b'', b'X=RND:'):
            s = H.new_session(horizon=50)
            try:
                ref = SEED0
                if pre:
                    ref = lcg(ref)
                r = H.run(s, pre + b'RANDOMIZE ' + expr)
                part.traces += 1
                if r.exc is not None:
                    part.violation('stmt/randomize/host-exception/' + H.exc_key(r.exc), repr(r.exc), case)
                    break
                if r.err is not None:
                    part.violation('stmt/randomize/basic-error', 'RANDOMIZE %s: error %r' % (expr.decode(), r.err), case)
                    break
                ref = ref_randomize(ref, b)
                got = s._impl.randomiser._seed
                if got != ref:
                    part.violation('stmt/randomize/wrong-seed', 'RANDOMIZE %s: state %r, reference %d' % (
                        expr.decode(), got, ref), case)
                vals5 = []
                for _ in range(5):
                    r = H.run(s, b'X!=RND')
                    ref = lcg(ref)
                    x = s.get_variable('X!')
                    vals5.append(x)
                    # exact: both sides are dyadic rationals with 24 significant bits
                    if r.err is not None or x * M != ref or not (0 <= x < 1):
                        part.violation('stmt/randomize/sequence', 'after RANDOMIZE %s: RND=%r, reference %d/2^24' % (
                            expr.decode(), x, ref), case)
                        break
                seqs.append(vals5)
            finally:
                s.close()
        if len(seqs) == 3 and seqs[0] != seqs[1]:
            part.violation('stmt/randomize/not-deterministic', 'two fresh sessions differ after RANDOMIZE %s' % expr.decode(), case)
        if len(seqs) == 3 and seqs[0] != seqs[2]:
            # strict reading of the statement; SEED0 and lcg(SEED0) differ in their low byte
            part.violation('randomize/previous-seed-low-byte-retained',
                           'RANDOMIZE %s:PRINT RND prints %r in a fresh session but X=RND:RANDOMIZE %s:PRINT RND prints %r'
                           % (expr.decode(), seqs[0][0], expr.decode(), seqs[2][0]), case)
        part.n += 1
        part.classes.add('stmt-rz-%d' % len(b))
        # RND(expr) in a fresh session and after a RND
        for pre in (b'', b'Y=RND:Y=RND:'):
            s = H.new_session(horizon=50)
            try:
                ref = SEED0
                if pre:
                    ref = lcg(lcg(ref))
                r = H.run(s, pre + b'X!=RND(' + expr + b')')
                part.traces += 1
                if r.exc is not None:
                    part.violation('stmt/rndx/host-exception/' + H.exc_key(r.exc), repr(r.exc), case)
                    continue
                # reference on the single value of the argument; only exact conversions are in the alphabet
                if len(b) == 2:
                    i = struct.unpack('<h', b)[0]
                    kr = 'neg' if i < 0 else ('zero' if i == 0 else 'pos')
                    m = (-i) << (24 - (-i).bit_length()) if i < 0 else 0
                elif len(b) == 4:
                    kr = 'zero' if b[3] == 0 else ('neg' if b[2] & 0x80 else 'pos')
                    m = sng_mantissa(b)
                else:
                    if b[:4] != b'\0\0\0\0':
                        continue    # inexact CSNG: not this property
                    kr = 'zero' if b[7] == 0 else ('neg' if b[6] & 0x80 else 'pos')
                    m = sng_mantissa(b[4:])
                ref = lcg(m) if kr == 'neg' else (ref if kr == 'zero' else lcg(ref))
                x = s.get_variable('X!')
                got = s._impl.randomiser._seed
                if r.err is not None or got != ref or x * M != ref:
                    part.violation('stmt/rndx/%s-argument' % kr, 'RND(%s)%s: err %r state %r value %r, reference %d' % (
                        expr.decode(), ' after 2 RND' if pre else '', r.err, got, x, ref), case)
                part.classes.add('stmt-rndx-%s-%d' % (kr, len(b)))
            finally:
                s.close()
        part.n += 1
    # string argument: RANDOMIZE -> Illegal function call, RND -> Type mismatch (manual)
    s = H.new_session(horizon=50)
    try:
        r = H.run(s, b'RANDOMIZE "1"')
        if r.exc is not None:
            part.violation('stmt/randomize/host-exception/' + H.exc_key(r.exc), repr(r.exc), {'idx': -1})
        elif r.err is None or s._impl.randomiser._seed != SEED0:
            part.violation('stmt/randomize/string-argument-accepted', 'RANDOMIZE "1": err %r state %r' % (
                r.err, s._impl.randomiser._seed), {'idx': -1})
        r = H.run(s, b'X=RND("1")')
        if r.exc is not None:
            part.violation('stmt/rndx/host-exception/' + H.exc_key(r.exc), repr(r.exc), {'idx': -1})
        elif r.err is None or s._impl.randomiser._seed != SEED0:
            part.violation('stmt/rndx/string-argument-accepted', 'RND("1"): err %r state %r' % (
                r.err, s._impl.randomiser._seed), {'idx': -1})
    finally:
        s.close()
    part.sample({'stmt': list(shard)[:3]})
    return part


# ---------------------------------------------------------------------------
# histories

HOPS = ['RND', 'RND(0)', 'RND(1)', 'RND(-1)', 'RND(-2.5)', 'RANDOMIZE 7', 'RANDOMIZE CINT(-3)', 'CLEAR', 'RUN',
        # refused (no closing bracket / bad argument): the sequence is where it was
        'RND(1', 'RND(-7', 'RND("a")']
REFUSED_HOPS = {'RND(1': 2, 'RND(-7': 2, 'RND("a")': 13}
_M1 = 0x800000          # mantissa of 1
_M25 = 0xa00000         # mantissa of 2.5


def _ref_hist(state, op):
    """Reference: (new state, value or None)."""
    if op in ('RND', 'RND(1)'):
        s = lcg(state)
        return s, s
    if op == 'RND(0)':
        return state, state
    if op == 'RND(-1)':
        s = lcg(_M1)
        return s, s
    if op == 'RND(-2.5)':
        s = lcg(_M25)
        return s, s
    if op == 'RANDOMIZE 7':
        return ref_randomize(state, struct.pack('<h', 7)), None
    if op == 'RANDOMIZE CINT(-3)':
        return ref_randomize(state, struct.pack('<h', -3)), None
    if op == 'CLEAR':
        return SEED0, None
    if op == 'RUN':
        # program: 10 X!=RND  -> restart, then one RND
        s = lcg(SEED0)
        return s, s
    if op in REFUSED_HOPS:
        return state, None
    raise CheckError(op)


def _hist_sequences(depth):
    seqs = [()]
    frontier = [()]
    for _ in range(depth):
        frontier = [h + (i,) for h in frontier for i in range(len(HOPS))]
        seqs.extend(frontier)
    return seqs


def _run_history(part, hist):
    from mc import harness as H
    s = H.new_session(horizon=200)
    try:
        H.run(s, b'10 X!=RND')
        state = SEED0
        if s._impl.randomiser._seed != SEED0:
            part.violation('clear/initial-seed', 'fresh session state %r' % (s._impl.randomiser._seed,), {'hist': list(hist)})
            return
        for pos, i in enumerate(hist):
            op = HOPS[i]
            stmt = op if op in ('CLEAR', 'RUN') or op.startswith('RANDOMIZE') else 'X!=' + op
            r = H.run(s, stmt.encode('ascii'))
            part.traces += 1
            part.transitions += 1
            case = {'hist': list(hist), 'ops': [HOPS[j] for j in hist[:pos + 1]]}
            if r.exc is not None:
                part.violation('history/host-exception/' + H.exc_key(r.exc), repr(r.exc), case)
                return
            if op in REFUSED_HOPS:
                if r.err != REFUSED_HOPS[op]:
                    part.violation('history/refused-call/wrong-outcome', '%s: error %r, expected %d' % (stmt, r.err, REFUSED_HOPS[op]), case)
                    return
            elif r.err is not None:
                part.violation('history/basic-error/' + op.split('(')[0].split(' ')[0], '%s: error %r' % (stmt, r.err), case)
                return
            state, val = _ref_hist(state, op)
            got = s._impl.randomiser._seed
            if got != state:
                opk = op.replace(' ', '')
                prev = HOPS[hist[pos - 1]].replace(' ', '') if pos else 'start'
                part.violation('history/wrong-state/%s' % opk,
                               'after %s: state %r, reference %d' % (' : '.join(case['ops']), got, state), case)
                return
            if val is not None:
                x = s.get_variable('X!')
                if x * M != val or not (0 <= x < 1):
                    part.violation('history/wrong-value/%s' % op.replace(' ', ''),
                                   'after %s: value %r, reference %d/2^24' % (' : '.join(case['ops']), x, val), case)
                    return
        part.n += 1
        part.outcome('len%d' % len(hist))
        if hist:
            part.classes.add('hist-%s>%s' % (HOPS[hist[-2]].replace(' ', '') if len(hist) > 1 else 'start',
                                             HOPS[hist[-1]].replace(' ', '')))
    finally:
        s.close()


def work_history(shard):
    part = Partial()
    for hist in shard:
        _run_history(part, tuple(hist))
    part.states = len(shard)
    part.sample({'hist': [HOPS[i] for i in shard[-1]]})
    return part


# ---------------------------------------------------------------------------

def legs(ctx):
    _ground_reference()
    out = []
    out.append(Leg('orbit', [(i, SEGLEN, NSEG) for i in range(NSEG)], work_orbit, exhaustive=True,
                   bound='all 2^24 steps of _cycle from the initial seed (256 chained segments): each step equals '
                         'the LCG, the initial seed re-appears at step 2^24 and not before'))
    special = _special_states()
    if ctx.quick:
        seg = 1 << 13
        shards = [('orbit', i, seg) for i in range((1 << 21) // seg)]
        b = 'RND on the first 2^21 states of the orbit'
    else:
        seg = 1 << 16
        shards = [('orbit', i, seg) for i in range(M // seg)]
        b = 'RND on all 2^24 states (orbit order)'
    shards += [('rnd0', c) for c in chunked(special, 8192)]
    out.append(Leg('scale', shards, work_scale, exhaustive=True,
                   bound=b + '; RND(0) on all %d states having a 00 or FF byte' % len(special)))
    exps = list(range(256))
    shards = [('int', lo, lo + 2048) for lo in range(-32768, 32768, 2048)]
    shards += [('f', 4, c) for c in chunked(exps, 8)]
    shards += [('f', 8, c) for c in chunked(exps, 4)]
    out.append(Leg('randomize', shards, work_randomize, exhaustive=True,
                   bound='reseed(): all 65536 integers; singles %d mantissa patterns x 256 exponent bytes x sign; '
                         'doubles %d patterns x 256 x sign; each from %d previous states' % (
                             len(num.mantissa_patterns(24, True)), len(num.mantissa_patterns(56, True)),
                             len(OLD_STATES))))
    shards = [('sng', c) for c in chunked(exps, 8)]
    shards += [('int', lo, lo + 2048) for lo in range(-32768, 32768, 2048)]
    shards += [('dbl', c) for c in chunked(exps, 16)]
    out.append(Leg('rnd-neg', shards, work_rndneg, exhaustive=True,
                   bound='RND(x): singles %d mantissa patterns x 256 exponent bytes x sign, all 65536 integers, '
                         'single-valued doubles; each from %d previous states' % (
                             len(num.mantissa_patterns(24, True)), len(OLD_STATES))))
    nargs = len(_stmt_args())
    out.append(Leg('stmt', list(chunked(range(nargs), 6)), work_stmt, exhaustive=True,
                   bound='RANDOMIZE v / RND(v) through Session.execute for %d boundary values of all three types, '
                         'fresh sessions and after previous RND calls' % nargs))
    depth = 4 if ctx.quick else 5
    seqs = _hist_sequences(depth)
    out.append(Leg('history', list(chunked(seqs, 120)), work_history, exhaustive=True,
                   bound='all %d operation sequences of length <= %d over %d operations %s on fresh sessions' % (
                       len(seqs), depth, len(HOPS), HOPS)))
    return out


def replay(ctx, leg, case):
    _ground_reference()
    if leg == 'orbit':
        # re-walk the segment up to the recorded step
        return work_orbit((case['seg'], case['seglen'], case['nseg']))
    if leg == 'scale':
        if case.get('kind') == 'rnd0':
            return work_scale(('rnd0', [case['state']]))
        p = work_scale(('orbit', case['seg'], case['seglen']))
        return p
    if leg == 'randomize':
        part = Partial()
        vals, r = _new_randomiser()
        if case['kind'] == 'int':
            v = N.Integer(None, vals).from_bytes(struct.pack('<h', case['i']))
        else:
            b = case['bytes']
            v = (N.Single if len(b) == 4 else N.Double)(None, vals).from_bytes(b)
        _check_reseed(part, r, v, case['kind'], {k: case[k] for k in case if k != 'old'})
        return part
    if leg == 'rnd-neg':
        if case['kind'] == 'int':
            return work_rndneg(('int', case['i'], case['i'] + 1))
        b = case['bytes']
        e = b[-1]
        return work_rndneg((case['kind'], [e]))
    if leg == 'stmt':
        return work_stmt([case['idx']] if case['idx'] >= 0 else [])
    if leg == 'history':
        return work_history([case['hist']])
    raise CheckError('unknown leg %r' % leg)
