"""
C35 - the displayed picture always equals the emulator's screen state.

E2 (history BFS on real sessions): a recording video queue is attached like an interface
(queue installed, display.rebuild()), every signal is applied to the reference consumer
models/display.Canvas, and after EVERY statement
  * consumer pixels == pixels the interpreter reports for the visible page,
  * consumer characters == characters it reports for the visible page,
  * a fresh consumer fed with display.rebuild() (what a resumed session sends) shows the same.
Histories: all sequences over the op alphabet up to the depth bound, de-duplicated on the
complete screen state (all page buffers incl. wrap flags, cursor, attribute, scroll area, pages,
mode, key bar).
"""
import hashlib
import logging

from mc.core import Leg, Partial, CheckError
from mc import bfs
from mc import harness as H
from models.display import Canvas

PROPERTY = 'C35'
ENGINE = 'E2 bfs'
LEVEL = 'model_checking'
LEVEL_TEXT = (
    'Explicit-state BFS over every history of up to 2-3 (quick) / 3-5 (thorough) statements from a 19-27 '
    'statement alphabet (PRINT short/row-filling/wrapping/newline, typed LINE INPUT wrapping at the margin, LOCATE corners, CLS, COLOR, VIEW PRINT, '
    'page switches, WIDTH, PCOPY, KEY ON/OFF, PSET/LINE/PUT) in 7 text and graphics mode configurations, '
    'executed on real sessions with a recording video queue; the reference display and a rebuild()-fed '
    'display are compared with the reported pixels and characters after every statement. States are merged '
    'only on the full screen state.')
LEVEL_NOTE = (
    'Trusted: models/display.py (consumer semantics of video.py/video_sdl2.py), the hidden-state key, '
    'reading the visible page through display.vpage.pixels (what Session.get_pixels returns).')
TECHNIQUE = ('bounded exhaustive exploration (BFS with exact state de-duplication) of statement histories on '
             'real sessions, lock-step comparison of a reference video-signal consumer with the reported screen')
RULE = ('a case is a history of statements from the alphabet; a case class is (config, last statement '
        'class, signal kinds it emitted); non-trivial = the statement emitted at least one content signal '
        '(update/clear_rows/scroll/set_mode)')
ASSUMPTIONS = [
    'internal seam: impl.queues.video replaced by a recording queue and display.rebuild() called as '
    'Implementation.attach_interface does; display.vpage.pixels[:, :].to_bytes() instead of the slower '
    'Session.get_pixels() (cross-checked against it in the root state); hidden-state key read from '
    'display/text_screen/VideoBuffer attributes',
    'cursor sprite, palette and border are not part of "pixels and characters of the visible page"',
    'a divergence is attributed to the statement after which it first appears; the consumer is '
    're-synchronised before each later statement so that one fault is reported once',
    'characters are compared as the unicode cells get_chars(as_type=str) reports, and as ASCII for '
    'printable ASCII bytes of get_chars()',
]

logging.disable(logging.CRITICAL)

CONTENT = ('update', 'clear_rows', 'scroll', 'set_mode')


def _text_ops(w):
    return [
        b'PRINT "ab";', b'PRINT "xyz"', b'PRINT', b'PRINT STRING$(%d,"R");' % w,
        b'PRINT STRING$(%d,"W")' % (w + 3),
        b'LOCATE 1,1', b'LOCATE 24,%d' % w, b'LOCATE 25,1', b'LOCATE 12,%d' % w,
        b'CLS', b'VIEW PRINT 2 TO 4', b'VIEW PRINT 3 TO 3', b'VIEW PRINT', b'KEY ON', b'KEY OFF',
        # typed input that wraps at the right margin: the only way to scroll DOWN (rows below make room)
        b'LOCATE 12,%d:LINE INPUT A$' % (w - 1),
    ]


PAGE_OPS = [b'SCREEN ,,1,0', b'SCREEN ,,0,1', b'SCREEN ,,1,1', b'SCREEN ,,0,0', b'PCOPY 0,1', b'PCOPY 1,0']
# (the 4x4 block is smaller than a character cell but lies across the corner of four cells, with 8- and with 14-line fonts)
GFX_OPS = [b'PSET (5,5),1', b'LINE (3,3)-(20,12),1,BF', b'GET (0,0)-(9,9),A%:PUT (13,30),A%,XOR',
           b'LINE (6,13)-(9,16),1,BF']

CONFIGS = {
    'cga-t80': dict(kw={'video': 'cga'}, setup=[b'WIDTH 80'],
                    ops=_text_ops(80) + [b'COLOR 7,1', b'COLOR 14,0', b'WIDTH 40', b'WIDTH 80'] + PAGE_OPS),
    'cga-t40': dict(kw={'video': 'cga'}, setup=[b'WIDTH 40'],
                    ops=_text_ops(40) + [b'COLOR 7,1', b'COLOR 0,7', b'WIDTH 40', b'WIDTH 80'] + PAGE_OPS),
    'vga-t80': dict(kw={'video': 'vga'}, setup=[b'WIDTH 80'], fonts=True,
                    ops=_text_ops(80) + [b'COLOR 7,1', b'COLOR 14,0', b'WIDTH 40'] + PAGE_OPS),
    # monochrome text adapter: attributes 1 and 9 are underlined (a scan line of the cell in the foreground colour)
    'mda-t80': dict(kw={'video': 'mda'}, setup=[b'WIDTH 80'],
                    ops=_text_ops(80) + [b'COLOR 1,0', b'COLOR 9,0', b'COLOR 7,0', b'COLOR 0,7']),
    'cga-s1': dict(kw={'video': 'cga'}, setup=[b'SCREEN 1', b'DIM A%(60)'],
                   ops=_text_ops(40) + [b'COLOR 1,0', b'COLOR 0,1', b'WIDTH 80'] + GFX_OPS),
    'cga-s2': dict(kw={'video': 'cga'}, setup=[b'SCREEN 2', b'DIM A%(60)'],
                   ops=_text_ops(80) + [b'WIDTH 40'] + GFX_OPS),
    'ega-s9': dict(kw={'video': 'ega'}, setup=[b'SCREEN 9', b'DIM A%(60)'], fonts=True,
                   ops=_text_ops(80) + [b'COLOR 7,1', b'COLOR 14,0'] + PAGE_OPS + GFX_OPS),
    'tandy-s5': dict(kw={'video': 'tandy', 'syntax': 'tandy'}, setup=[b'SCREEN 5', b'DIM A%(120)'],
                     ops=_text_ops(40) + [b'COLOR 7,1', b'COLOR 14,0'] + PAGE_OPS + GFX_OPS),
}

# reduced alphabet for the deeper legs: everything that scrolls, clears, recolours, windows or pages
def _core_ops(cid):
    w = 40 if cid in ('cga-t40', 'cga-s1', 'tandy-s5') else 80
    ops = [b'PRINT "xyz"', b'PRINT STRING$(%d,"W")' % (w + 3), b'LOCATE 24,%d' % w, b'LOCATE 1,1', b'CLS',
           b'VIEW PRINT 2 TO 4', b'VIEW PRINT 3 TO 3', b'VIEW PRINT', b'KEY ON',
           b'LOCATE 12,%d:LINE INPUT A$' % (w - 1)]
    allops = CONFIGS[cid]['ops']
    for o in (b'COLOR 7,1', b'COLOR 1,0', b'SCREEN ,,1,0', b'SCREEN ,,0,1', b'PCOPY 0,1',
              b'LINE (3,3)-(20,12),1,BF'):
        if o in allops:
            ops.append(o)
    return ops


_FONTS = {}


def _fonts():
    if 'f' not in _FONTS:
        from pcbasic import data
        _FONTS['f'] = data.read_fonts(data.read_codepage('437'), ['default'])
    return _FONTS['f']


# ---------------------------------------------------------------------------------------

class Rig(object):
    """A real session + the reference consumer."""

    def __init__(self, cid):
        cfg = CONFIGS[cid]
        kw = dict(cfg['kw'])
        if cfg.get('fonts'):
            kw['font'] = _fonts()
        self.cid = cid
        self.s = H.new_session(record_video=True, horizon=4000, **kw)
        self.impl = self.s._impl
        self.q = self.impl.queues.video
        self.canvas = Canvas()
        self.bytes_diverged = False
        # what attaching an interface does
        self.impl.display.rebuild()
        self.feed()
        if self.canvas.mode is None:
            raise CheckError('rebuild() did not send a mode')

    def feed(self, canvas=None):
        canvas = canvas or self.canvas
        kinds = []
        scrolls = []
        for ev in self.q.drain():
            kind = ev.event_type
            fn = getattr(canvas, kind, None)
            if fn is None:
                continue
            params = ev.params
            if kind == 'update':
                row, col, text, attrs, y0, x0, sprite = params
                if sprite is not None and sprite.height and sprite.width:
                    sp = (sprite.height, sprite.width, sprite.to_bytes())
                else:
                    sp = None
                canvas.update(row, col, text, attrs, y0, x0, sp)
            else:
                fn(*params)
            if kind == 'scroll':
                scrolls.append(params)
            kinds.append(kind)
        return kinds, scrolls

    # what the interpreter reports -----------------------------------------------------

    def reported_pixels(self):
        return self.impl.display.vpage.pixels[:, :].to_bytes()

    def reported_chars(self):
        return self.s.get_chars(as_type=type(u''))

    def resync(self):
        d = self.impl.display
        rows = d.vpage.pixels[:, :]
        c = self.canvas
        if (c.height, c.width) != (rows.height, rows.width):
            c.set_mode(d.mode.pixel_height, d.mode.pixel_width, d.mode.height, d.mode.width)
        data = rows.to_bytes()
        w = rows.width
        c.pixels = [bytearray(data[i * w:(i + 1) * w]) for i in range(rows.height)]
        c.text = [list(r) for r in self.reported_chars()]

    def state_key(self):
        d = self.impl.display
        ts = self.impl.text_screen
        h = hashlib.sha1()
        h.update(repr((
            d.mode.name, d.attr, d.apagenum, d.vpagenum, d._border_attr, d.colorswitch,
            ts.current_row, ts.current_col, ts.overflow, ts.scroll_area.bounds, ts.scroll_area.active,
            ts._bottom_row_allowed, ts._bottom_bar.visible, len(d.pages),
        )).encode())
        for page in d.pages:
            for row in page._rows:
                h.update(b''.join(row.chars))
                h.update(bytes(bytearray(a & 0xff for a in row.attrs)))
                h.update(b'%d,%d;' % (row.length, row.wrap))
            h.update(page._pixels.to_bytes())
            h.update(b'V' if page._visible else b'v')
        return h.hexdigest()

    # ---------------------------------------------------------------------------------

    def step(self, stmt):
        """Run one statement; returns (Run, kinds, scrolls)."""
        if b'INPUT' in stmt:
            # the typed answer: four characters and Enter
            self.s.verif_inputs._pending = [H.key_event(c) for c in u'qrst\r']
        r = H.run(self.s, stmt)
        self.s.verif_inputs._pending = []
        kinds, scrolls = self.feed()
        return r, kinds, scrolls

    def compare(self, kinds, scrolls, opname):
        """-> list of (key, what)."""
        viols = []
        c = self.canvas
        d = self.impl.display
        gfx = 'graphics' if not d.mode.is_text_mode else 'text'
        ksig = '+'.join(sorted(set(k for k in kinds if k in CONTENT))) or 'none'
        if (c.height, c.width, c.text_height, c.text_width) != (
                d.mode.pixel_height, d.mode.pixel_width, d.mode.height, d.mode.width):
            viols.append(('mode/%s/%s/geometry-differs' % (gfx, opname),
                          'display geometry %r, interpreter mode %s' % (c.mode, d.mode.name)))
            return viols
        rep = self.reported_pixels()
        got = c.pixel_bytes()
        if rep != got:
            w = c.width
            bad_y = [y for y in range(c.height) if rep[y * w:(y + 1) * w] != got[y * w:(y + 1) * w]]
            trows = sorted(set(y // c.font_height + 1 for y in bad_y))
            key = None
            if scrolls:
                # rows vacated by a scroll (and rows they were scrolled to by later scrolls of the
                # same statement): display filled with `back`, interpreter buffer holds 0
                backs = set(p[3] for p in scrolls)
                if len(backs) == 1 and 0 not in backs:
                    back = list(backs)[0]
                    ok = all(
                        a == b or (a == 0 and b == back)
                        for y in bad_y
                        for a, b in zip(rep[y * w:(y + 1) * w], got[y * w:(y + 1) * w]))
                    if ok:
                        key = 'scroll-%s/%s/vacated-row-not-background' % (
                            'up' if scrolls[0][0] == -1 else 'down', gfx)
            if key is None:
                key = 'pixels/%s/%s/%s' % (gfx, opname, ksig)
            y = bad_y[0]
            x = [i for i in range(w) if rep[y * w + i] != got[y * w + i]][0]
            viols.append((key, 'after %s: %d pixel rows differ (text rows %r); first at (x=%d, y=%d): display '
                               'shows %d, interpreter reports %d' % (
                                   opname, len(bad_y), trows[:6], x, y, got[y * w + x], rep[y * w + x])))
        chars = self.reported_chars()
        if chars != c.chars():
            bad = [(r + 1, col + 1) for r in range(len(chars)) for col in range(len(chars[r]))
                   if r >= len(c.text) or col >= len(c.text[r]) or chars[r][col] != c.text[r][col]]
            viols.append(('text/%s/%s/%s' % (gfx, opname, ksig if ksig != 'none' else 'changed-without-signal'),
                          'after %s: %d character cells differ, first at %r: display %r, interpreter %r' % (
                              opname, len(bad), bad[0],
                              c.text[bad[0][0] - 1][bad[0][1] - 1] if bad[0][0] <= len(c.text) else None,
                              chars[bad[0][0] - 1][bad[0][1] - 1])))
        elif not self.bytes_diverged:
            # (once the byte buffer and the unicode buffer of a page have diverged they stay so: the
            # fault is reported at the statement after which it first appears, not at every later one)
            raw = self.s.get_chars()
            for r, row in enumerate(raw):
                for col, ch in enumerate(row):
                    if len(ch) == 1 and 0x20 <= ord(ch) <= 0x7e and c.text[r][col] != ch.decode('ascii'):
                        viols.append((('scroll-%s/%s/byte-buffer-differs' % (
                            'up' if scrolls[0][0] == -1 else 'down', gfx)) if scrolls else
                                      'text/%s/%s/byte-buffer-differs' % (gfx, opname),
                                      'after %s: cell (%d,%d) holds %r but the display was sent %r' % (
                                          opname, r + 1, col + 1, ch, c.text[r][col])))
                        self.bytes_diverged = True
                        break
                else:
                    continue
                break
        return viols

    def compare_rebuild(self, opname):
        """A fresh display fed by rebuild() (resume) must show what the interpreter reports."""
        viols = []
        d = self.impl.display
        fresh = Canvas()
        self.q.drain()
        d.rebuild()
        self.feed(fresh)
        gfx = 'graphics' if not d.mode.is_text_mode else 'text'
        if fresh.mode is None:
            return [('rebuild/%s/no-mode' % gfx, 'rebuild() sent no set_mode')]
        if fresh.pixel_bytes() != self.reported_pixels():
            viols.append(('rebuild/%s/%s/pixels-differ' % (gfx, opname),
                          'after %s: a display fed by rebuild() differs from the reported pixels' % opname))
        if fresh.chars() != self.reported_chars():
            viols.append(('rebuild/%s/%s/text-differs' % (gfx, opname),
                          'after %s: a display fed by rebuild() differs from the reported characters' % opname))
        return viols


def opclass(stmt):
    s = stmt.decode('latin-1')
    if s.startswith('PRINT STRING$'):
        return 'PRINT-wrap' if s.endswith(')') else 'PRINT-fill;'
    if s.startswith('PRINT'):
        return 'PRINT;' if s.endswith(';') else ('PRINT-nl' if s == 'PRINT' else 'PRINT')
    if s.startswith('SCREEN ,,'):
        return 'SCREEN-page'
    if s.startswith('GET'):
        return 'PUT'
    if s.startswith('LINE (6,13)'):
        return 'LINE-across-cells'
    if s.startswith('VIEW PRINT'):
        return 'VIEW-PRINT' + ('-set' if len(s) > 10 else '-reset')
    if 'INPUT' in s:
        return 'INPUT-wrap'
    if s.startswith('LOCATE 25'):
        return 'LOCATE-25'
    if s.startswith('LOCATE 24'):
        return 'LOCATE-24'
    if s.startswith('KEY'):
        return s.replace(' ', '-')
    if s.startswith('WIDTH'):
        return s.replace(' ', '-')
    return s.split(' ')[0].split('(')[0]


def build(cid, hist, part_viols=None):
    """Fresh rig in the state after hist (list of statements); consumer re-synchronised after
    every replayed statement."""
    rig = Rig(cid)
    for st in CONFIGS[cid]['setup']:
        r, kinds, scrolls = rig.step(st)
        if r.exc is not None or r.err is not None:
            raise CheckError('setup %r failed in %s: %r' % (st, cid, r))
        v = rig.compare(kinds, scrolls, 'setup:' + opclass(st))
        if part_viols is not None:
            part_viols.extend(v)
        if v:
            rig.resync()
    for st in hist:
        r, kinds, scrolls = rig.step(st)
        if rig.compare(kinds, scrolls, opclass(st)):
            rig.resync()
    return rig


def _pages_ops(cid):
    """Writing (with wrapping and scrolling) on a page that is not shown, then showing or copying it."""
    w = 40 if cid in ('cga-t40', 'cga-s1', 'tandy-s5') else 80
    return [b'SCREEN ,,1,0', b'SCREEN ,,0,1', b'SCREEN ,,1,1', b'SCREEN ,,0,0', b'PCOPY 1,0', b'PCOPY 0,1',
            b'LOCATE 24,%d' % w, b'PRINT STRING$(%d,"W");' % (w + 3), b'PRINT "xyz"', b'CLS']


def _expand(hist, opsel):
    cid = hist[0]
    stmts = [h for h in hist[1:]]
    ops = {'all': lambda: CONFIGS[cid]['ops'], 'core': lambda: _core_ops(cid), 'pages': lambda: _pages_ops(cid)}[opsel]()
    out = []
    for op in ops:
        rig = build(cid, stmts)
        r, kinds, scrolls = rig.step(op)
        oc = opclass(op)
        viols = []
        if r.exc is not None:
            viols.append(('host-exception/%s/%s' % (oc, H.exc_key(r.exc)), repr(r.exc)))
            out.append((op, None, viols, None))
            continue
        viols.extend(rig.compare(kinds, scrolls, oc))
        if not viols:
            viols.extend(rig.compare_rebuild(oc))
        ksig = '+'.join(sorted(set(k for k in kinds if k in CONTENT)))
        info = '%s/%s/%s%s' % (cid, oc, ksig or 'no-content-signal', '/err%d' % r.err if r.err else '')
        key = (cid, rig.state_key())
        out.append((op, key, viols, info))
    return out


def expand_all(hist):
    return _expand(hist, 'all')


def expand_core(hist):
    return _expand(hist, 'core')


def expand_pages(hist):
    return _expand(hist, 'pages')


def work_root(shard):
    """Root state of a config: setup statements checked, public get_pixels cross-check."""
    cid = shard
    part = Partial()
    v = []
    rig = build(cid, [], v)
    for key, what in v:
        part.violation(key, what, {'history': [cid]})
    rows = rig.s.get_pixels()
    if b''.join(bytes(bytearray(r)) for r in rows) != rig.reported_pixels():
        raise CheckError('Session.get_pixels() differs from display.vpage.pixels')
    for key, what in rig.compare_rebuild('root'):
        part.violation(key, what, {'history': [cid]})
    part.n = 1 + len(CONFIGS[cid]['setup'])
    part.traces = part.n
    part.classes.add(cid + '/root')
    return part


def work_bfs(shard):
    cid, opsel, depth, budget = shard
    part = Partial()
    res = bfs.explore({'all': expand_all, 'core': expand_core, 'pages': expand_pages}[opsel], [(cid,)], depth, part,
                      time_budget=budget, label='%s_%s' % (cid.replace('-', '_'), opsel))
    part.add('levels_' + cid, len(res['levels']))
    return part


def legs(ctx):
    out = [Leg('root', list(CONFIGS), work_root, exhaustive=True,
               bound='%d configurations: attach, setup statements, rebuild' % len(CONFIGS))]
    if ctx.quick:
        plan = [(cid, 'all', 2, None) for cid in CONFIGS] + [
            (cid, 'core', 3, None) for cid in ('cga-t80', 'cga-s1', 'ega-s9', 'mda-t80')] + [
            (cid, 'pages', 4, None) for cid in ('cga-t80', 'ega-s9')]
    else:
        plan = [(cid, 'all', 4 if cid == 'cga-t80' else 3, None) for cid in CONFIGS] + [
            (cid, 'core', 5 if cid in ('cga-t80', 'cga-t40') else 4, None) for cid in CONFIGS] + [
            (cid, 'pages', 6, None) for cid in ('cga-t80', 'cga-t40', 'vga-t80', 'ega-s9', 'tandy-s5')]
    for cid, opsel, depth, budget in plan:
        nops = len({'all': CONFIGS[cid]['ops'], 'core': _core_ops(cid), 'pages': _pages_ops(cid)}[opsel])
        out.append(Leg('bfs-%s-%s' % (cid, opsel), [(cid, opsel, depth, budget)], work_bfs, exhaustive=True,
                       serial=True,
                       bound='%s: all histories of <= %d statements over %d ops (%s alphabet), states merged '
                             'on the full screen state' % (cid, depth, nops, opsel)))
    return out


def replay(ctx, leg, case):
    part = Partial()
    hist = case['history']
    cid = hist[0]
    stmts = [h if isinstance(h, bytes) else h.encode('latin-1') for h in hist[1:]]
    if not stmts:
        return work_root(cid)
    rig = build(cid, stmts[:-1])
    op = stmts[-1]
    r, kinds, scrolls = rig.step(op)
    oc = opclass(op)
    if r.exc is not None:
        part.violation('host-exception/%s/%s' % (oc, H.exc_key(r.exc)), repr(r.exc), case)
        return part
    v = rig.compare(kinds, scrolls, oc)
    if not v:
        v = rig.compare_rebuild(oc)
    for key, what in v:
        part.violation(key, what, case)
    part.n = 1
    return part
