"""
C17 - tokenising and listing are consistent.

E1 (domain enumeration on the real Tokeniser / Lister objects, per dialect):
  keywords : every keyword of the dialect's table: keyword -> token -> keyword is the
             identity, tokens and keywords are unique, and the keyword typed in upper /
             lower / alternating / inverse-alternating case inside a line tokenises to the
             same bytes, which contain exactly that token  (exhaustive over the table)
  single   : every statement template x (every literal of the full literal alphabet in one
             slot, base literals elsewhere) + (all assignments of the small literal alphabet)
  lines    : every line  stmt(:stmt){1..2}  over the statement-instance alphabet
  case     : every single-statement line with keywords/names in lower and alternating case
Oracle per line: (a) tokenise(src) equals a hand-assembled token string whose number
tokens come from an independent exact encoder (type and value of every literal);
(b) tokenise(list(T)) == T byte for byte.
"""
import struct
from fractions import Fraction

from mc.core import Leg, Partial, CheckError, chunked
from mc import num

from pcbasic.basic.converter import Tokeniser, Lister
from pcbasic.basic.base import tokens as tk
from pcbasic.basic.base import codestream

PROPERTY = 'C17'
ENGINE = 'E1 domain'
LEVEL = 'model_checking'
LEVEL_TEXT = (
    'Bounded exhaustive enumeration on the real Tokeniser.tokenise_line / Lister.detokenise_line for the '
    'advanced, pcjr and tandy dialects: the whole keyword table (identity, uniqueness, 4 capitalisations), '
    'and every line stmt(:stmt){0..2} over 50 canonical statement templates whose number slots range over '
    'a literal alphabet containing every token class (constants 0-9, byte, integer, hex, octal, single, '
    'double; with/without exponent, sigils, non-canonical spellings), all exactly representable with '
    '<=7/<=16 digits. Each line is checked against a hand-assembled tokenisation (exact type and value of '
    'every literal) and for tokenise(list(T)) == T.')
LEVEL_NOTE = (
    'Trusted: the MBF encoder of the check (exact rationals), the template table (canonical separators) '
    'and the special tokenisations :ELSE, WHILE+, :REM\' which are part of the GW-BASIC file format.')
TECHNIQUE = ('bounded exhaustive enumeration of keyword tables and grammar-generated lines on the real '
             'Tokeniser/Lister against an independent token assembler and the list/re-enter fixed point')
RULE = ('lines = line number + 1..3 statement instances joined by ":"; a statement instance = template x '
        'literal assignment; a case class is (dialect, template, literal token class in the varied slot) '
        'resp. (dialect, keyword group); every class with a literal other than a small constant, a jump '
        'number or a special token is non-trivial')
ASSUMPTIONS = [
    'internal seam: converter.Tokeniser.tokenise_line, converter.Lister.detokenise_line, '
    'tokens.TokenKeywordDict (the anchored mechanisms)',
    'keyword tokens in the hand-assembled expectation come from TokenKeywordDict.to_token (whose '
    'bijectivity is checked by the keywords leg); number tokens come from the independent encoder',
    'a keyword is "recognised" when the tokenised line contains its token at the position of the word '
    '(ELSE is stored as :ELSE, WHILE as WHILE+, \' as :REM\' - GW-BASIC file format)',
    'blanks directly after an octal literal are not stored in the tokenised line (GW-BASIC reads &O '
    'literals across blanks; emulated by pcbasic); the listing re-inserts one before a keyword',
    'the number 10 is stored as the one-byte constant 0F 0A; token 1B (listed as 10) is never generated',
    'only canonical separators are generated (one blank between words, none around operators or '
    'punctuation), as the statement requires',
]

DIALECTS = ('advanced', 'pcjr', 'tandy')

# ---------------------------------------------------------------------------
# independent number encoders


def mbf(value, nbytes):
    """Exact MBF encoding of a non-negative rational, or None if not exactly representable."""
    value = Fraction(value)
    if value == 0:
        return b'\0' * nbytes
    mbits = (nbytes - 1) * 8
    e = 0
    while value >= Fraction(2) ** e:
        e += 1
    while value < Fraction(2) ** (e - 1):
        e -= 1
    m = value / (Fraction(2) ** e) * (1 << mbits)
    if m.denominator != 1 or not 1 <= e + 128 <= 255:
        return None
    m = int(m)
    b = bytearray(m.to_bytes(nbytes - 1, 'little'))
    b[-1] &= 0x7f
    return bytes(b) + bytes([e + 128])


def _lit(text, cls, value):
    if cls == 'const':
        tok = bytes([0x11 + value])
    elif cls == 'byte':
        tok = b'\x0f' + bytes([value])
    elif cls == 'int':
        tok = b'\x1c' + struct.pack('<H', value)
    elif cls == 'hex':
        tok = b'\x0c' + struct.pack('<H', value)
    elif cls == 'oct':
        tok = b'\x0b' + struct.pack('<H', value)
    elif cls == 'single':
        enc = mbf(value, 4)
        if enc is None:
            raise CheckError('literal %r is not an exact single' % (text,))
        tok = b'\x1d' + enc
    elif cls == 'double':
        enc = mbf(value, 8)
        if enc is None:
            raise CheckError('literal %r is not an exact double' % (text,))
        tok = b'\x1f' + enc
    else:
        raise ValueError(cls)
    return (text, tok, cls)


def literals():
    L = []
    for n in range(10):
        L.append(_lit(b'%d' % n, 'const', n))
    # 10 is stored as a one-byte constant (0F 0A); token 1B is listed as 10 but never generated
    for n in (10, 11, 12, 99, 100, 127, 128, 254, 255):
        L.append(_lit(b'%d' % n, 'byte', n))
    for n in (256, 257, 999, 1000, 9999, 10000, 32766, 32767):
        L.append(_lit(b'%d' % n, 'int', n))
    # (the digit strings 10, 100 and 777 occur under both radixes, with different values)
    for n in (0, 1, 0xa, 0x10, 0xff, 0x100, 0x777, 0x7fff, 0x8000, 0xabcd, 0xffff):
        L.append(_lit(b'&H%X' % n, 'hex', n))
    for n in (0, 7, 8, 0o100, 0o777, 0o77777, 0o100000, 0o177777):
        L.append(_lit(b'&O%o' % n, 'oct', n))
    F = Fraction
    # singles: <= 7 significant digits, exactly representable in 24 bits
    for text, v in (
            (b'32768', 32768), (b'65535', 65535), (b'65536', 65536), (b'100000', 100000),
            (b'1234567', 1234567), (b'9999999', 9999999), (b'.5', F(1, 2)), (b'.25', F(1, 4)),
            (b'1.5', F(3, 2)), (b'2.75', F(11, 4)), (b'1234.5', F(2469, 2)), (b'99999.5', F(199999, 2)),
            (b'.125', F(1, 8)), (b'7.8125E-03', F(1, 128)), (b'1!', 1), (b'0!', 0), (b'100!', 100),
            (b'32767!', 32767), (b'1E+10', 10 ** 10), (b'1E+08', 10 ** 8), (b'5E+09', 5 * 10 ** 9),
    ):
        L.append(_lit(text, 'single', v))
    # non-canonical spellings of exact singles
    for text, v in ((b'0.5', F(1, 2)), (b'1.50', F(3, 2)), (b'1e+10', 10 ** 10), (b'1E10', 10 ** 10),
                    (b'32768!', 32768)):
        L.append(_lit(text, 'single', v))
    # doubles: <= 16 significant digits, exactly representable in 56 bits
    for text, v in (
            (b'1#', 1), (b'0#', 0), (b'1.5#', F(3, 2)), (b'.5#', F(1, 2)), (b'32768#', 32768),
            (b'123456789', 123456789), (b'12345678', 12345678), (b'1234567890123456', 1234567890123456),
            (b'9007199254740993', 9007199254740993), (b'1D+10', 10 ** 10), (b'1D+20', 10 ** 20),
            (b'1.5D+10', 15 * 10 ** 9), (b'3.0517578125D-05', F(1, 32768)), (b'.001953125#', F(1, 512)),
            (b'1234567.5', F(2469135, 2)), (b'.0009765625#', F(1, 1024)), (b'16777217', 16777217),
            (b'1d+10', 10 ** 10), (b'1.50#', F(3, 2)), (b'0.5#', F(1, 2)), ):
        L.append(_lit(text, 'double', v))
    return L


LITS = literals()
# small alphabet: one literal of every token class
SMALL = [l for l in LITS if l[0] in (b'1', b'10', b'255', b'256', b'&HFF', b'&O777', b'1.5', b'1.5#')]
BASE = [l for l in LITS if l[0] == b'2'][0]
if len(SMALL) != 8:
    raise CheckError('small literal alphabet incomplete')
JUMPS = [0, 1, 10, 255, 256, 1000, 32767, 32768, 65529]
JBASE = 100

# ---------------------------------------------------------------------------
# statement templates.  pieces: ('k', keyword) | ('t', verbatim text) | ('n',) number slot | ('j',) jump slot
# | ('v', name) variable name (upper-cased by the tokeniser)


def K(w):
    return ('k', w)


def T(s):
    return ('t', s)


def V(s):
    return ('v', s)


N = ('n',)
J = ('j',)

TEMPLATES = {
    'let': [V(b'A'), K(b'='), N],
    'LET': [K(b'LET'), T(b' '), V(b'A'), K(b'='), N],
    'neg': [V(b'A'), K(b'='), K(b'-'), N],
    'arith': [V(b'A'), K(b'='), N, K(b'+'), N, K(b'*'), N],
    'pow': [V(b'A'), K(b'='), N, K(b'^'), N, K(b'/'), N, K(b'\\'), N],
    'mod': [V(b'A'), K(b'='), N, T(b' '), K(b'MOD'), T(b' '), N],
    'logic': [V(b'A'), K(b'='), N, T(b' '), K(b'AND'), T(b' '), N, T(b' '), K(b'OR'), T(b' '), K(b'NOT'), T(b' '), N],
    'eqv': [V(b'A'), K(b'='), N, T(b' '), K(b'EQV'), T(b' '), N],
    'cmp': [V(b'A'), K(b'='), N, K(b'<'), K(b'='), N],
    'paren': [V(b'A'), K(b'='), T(b'('), N, K(b'+'), N, T(b')')],
    'array': [V(b'A'), T(b'('), N, T(b','), N, T(b')'), K(b'='), N],
    'strfn': [V(b'A$'), K(b'='), K(b'CHR$'), T(b'('), N, T(b')'), K(b'+'), T(b'"q 12 PRINT"')],
    'func': [V(b'A'), K(b'='), K(b'SQR'), T(b'('), N, T(b')'), K(b'+'), K(b'ABS'), T(b'('), K(b'-'), N, T(b')')],
    'mid': [V(b'A$'), K(b'='), K(b'MID$'), T(b'('), V(b'B$'), T(b','), N, T(b','), N, T(b')')],
    'print': [K(b'PRINT'), T(b' '), N],
    'print;': [K(b'PRINT'), T(b' '), N, T(b';'), N, T(b';')],
    'print,': [K(b'PRINT'), T(b' '), N, T(b','), N],
    'printstr': [K(b'PRINT'), T(b' "abc";'), N],
    'using': [K(b'PRINT'), T(b' '), K(b'USING'), T(b' "##.##";'), N],
    'tab': [K(b'PRINT'), T(b' '), K(b'TAB('), N, T(b');'), N],
    'spc': [K(b'PRINT'), T(b' '), K(b'SPC('), N, T(b')'), N],
    'print#': [K(b'PRINT'), T(b' #'), N, T(b','), N],
    'if': [K(b'IF'), T(b' '), V(b'A'), K(b'='), N, T(b' '), K(b'THEN'), T(b' '), K(b'PRINT'), T(b' '), N],
    'ifelse': [K(b'IF'), T(b' '), V(b'A'), K(b'>'), N, T(b' '), K(b'THEN'), T(b' '), V(b'B'), K(b'='), N,
               T(b' '), K(b'ELSE'), T(b' '), V(b'B'), K(b'='), N],
    'ifjump': [K(b'IF'), T(b' '), V(b'A'), T(b' '), K(b'THEN'), T(b' '), J, T(b' '), K(b'ELSE'), T(b' '), J],
    'ifgoto': [K(b'IF'), T(b' '), V(b'A'), K(b'<'), N, T(b' '), K(b'GOTO'), T(b' '), J],
    'for': [K(b'FOR'), T(b' '), V(b'I'), K(b'='), N, T(b' '), K(b'TO'), T(b' '), N, T(b' '), K(b'STEP'), T(b' '), N],
    'next': [K(b'NEXT'), T(b' '), V(b'I')],
    'while': [K(b'WHILE'), T(b' '), V(b'A'), K(b'<'), N],
    'wend': [K(b'WEND')],
    'goto': [K(b'GOTO'), T(b' '), J],
    'gosub': [K(b'GOSUB'), T(b' '), J],
    'ongoto': [K(b'ON'), T(b' '), V(b'A'), T(b' '), K(b'GOTO'), T(b' '), J, T(b','), J, T(b','), J],
    'ongosub': [K(b'ON'), T(b' '), V(b'A'), T(b' '), K(b'GOSUB'), T(b' '), J, T(b','), J],
    'onerror': [K(b'ON'), T(b' '), K(b'ERROR'), T(b' '), K(b'GOTO'), T(b' '), J],
    'restore': [K(b'RESTORE'), T(b' '), J],
    'resume': [K(b'RESUME'), T(b' '), J],
    'return': [K(b'RETURN'), T(b' '), J],
    'run': [K(b'RUN'), T(b' '), J],
    'erl': [K(b'IF'), T(b' '), K(b'ERL'), K(b'='), J, T(b' '), K(b'THEN'), T(b' '), J],
    'onkey': [K(b'ON'), T(b' '), K(b'KEY'), T(b'('), N, T(b') '), K(b'GOSUB'), T(b' '), J],
    'deffn': [K(b'DEF'), T(b' '), K(b'FN'), V(b'A'), T(b'('), V(b'X'), T(b')'), K(b'='), V(b'X'), K(b'*'), N],
    'fncall': [V(b'A'), K(b'='), K(b'FN'), V(b'A'), T(b'('), N, T(b')')],
    'open': [K(b'OPEN'), T(b' "F" '), K(b'FOR'), T(b' '), K(b'INPUT'), T(b' AS #'), N],
    'dim': [K(b'DIM'), T(b' '), V(b'A'), T(b'('), N, T(b','), N, T(b')')],
    'locate': [K(b'LOCATE'), T(b' '), N, T(b','), N],
    'poke': [K(b'POKE'), T(b' '), N, T(b','), N],
    'color': [K(b'COLOR'), T(b' '), N, T(b','), N, T(b','), N],
    'line': [K(b'LINE'), T(b' ('), N, T(b','), N, T(b')'), K(b'-'), T(b'('), N, T(b','), N, T(b'),'), N, T(b','), V(b'BF')],
    'input': [K(b'INPUT'), T(b' "p 5";'), V(b'A'), T(b','), V(b'B$')],
    'lineinput': [K(b'LINE'), T(b' '), K(b'INPUT'), T(b' '), V(b'A$')],
    'key': [K(b'KEY'), T(b' '), N, T(b',"x"')],
    'data': [K(b'DATA'), T(b' 1,abc, 2.50 ,"x,y:z",&HFF')],
    'rem': [K(b'REM'), T(b' any 123 PRINT "text')],
    'quote': [K(b"'"), T(b' any 123 PRINT "text')],
    'end': [K(b'END')],
}
DIALECT_TEMPLATES = {
    'noise': [K(b'NOISE'), T(b' '), N, T(b','), N, T(b','), N],
    'term': [K(b'TERM')],
}
# statements that swallow the rest of the line: only allowed as the last statement
LAST_ONLY = ('rem', 'quote')
# DATA ends at ':' so it can be followed; REM and ' cannot


class Dialect(object):
    def __init__(self, syntax):
        self.syntax = syntax
        self.values = num.make_values()
        self.kd = tk.TokenKeywordDict(syntax)
        self.tokeniser = Tokeniser(self.values, self.kd)
        self.lister = Lister(self.values, self.kd)
        self.templates = dict(TEMPLATES)
        if syntax in ('pcjr', 'tandy'):
            self.templates.update(DIALECT_TEMPLATES)

    def tokenise(self, src):
        return self.tokeniser.tokenise_line(src).getvalue()

    def list(self, tokenised):
        ins = codestream.TokenisedStream()
        ins.write(tokenised)
        ins.seek(1)
        num_, text, _ = self.lister.detokenise_line(ins)
        return num_, bytes(text)

    def kw_token(self, word):
        tok = self.kd.to_token.get(word)
        if tok is None:
            # keyword missing from the dialect's table: an expectation that cannot match
            return b'<no token for ' + word + b'>'
        if word == b'ELSE':
            return b':' + tok
        if word == b'WHILE':
            return tok + self.kd.to_token[b'+']
        if word == b"'":
            return b':' + self.kd.to_token[b'REM'] + tok
        return tok


_DIALECTS = {}


def dialect(syntax):
    if syntax not in _DIALECTS:
        _DIALECTS[syntax] = Dialect(syntax)
    return _DIALECTS[syntax]


def alt_case(word, phase):
    out = bytearray()
    k = phase
    for c in word:
        ch = bytes([c])
        out += ch.upper() if k % 2 == 0 else ch.lower()
        k += 1
    return bytes(out)


def render(d, template, lits, jumps, case=None):
    """-> (source text, expected tokens) of one statement instance.
    case: None (upper) | 'lower' | 'alt0' | 'alt1' applied to keywords and names."""
    src = []
    exp = []
    li = iter(lits)
    ji = iter(jumps)
    after_oct = False
    for p in template:
        if p[0] == 't' and after_oct:
            # GW-BASIC reads an &O literal across blanks: blanks right after it are not stored
            src.append(p[1])
            exp.append(p[1].lstrip(b' '))
            after_oct = False
            continue
        after_oct = False
        if p[0] == 'k':
            w = p[1]
            if case == 'lower':
                sw = w.lower()
            elif case in ('alt0', 'alt1'):
                sw = alt_case(w, int(case[-1]))
            else:
                sw = w
            src.append(sw)
            exp.append(d.kw_token(w))
        elif p[0] == 'v':
            w = p[1]
            if case == 'lower':
                sw = w.lower()
            elif case in ('alt0', 'alt1'):
                sw = alt_case(w, int(case[-1]))
            else:
                sw = w
            src.append(sw)
            exp.append(w)
        elif p[0] == 't':
            src.append(p[1])
            exp.append(p[1])
        elif p[0] == 'n':
            text, tok, _cls = next(li)
            src.append(text)
            exp.append(tok)
            after_oct = (_cls == 'oct')
        else:
            n = next(ji)
            src.append(b'%d' % n)
            exp.append(b'\x0e' + struct.pack('<H', n))
    return b''.join(src), b''.join(exp)


def slots(template):
    return sum(1 for p in template if p[0] == 'n'), sum(1 for p in template if p[0] == 'j')


def check_line(d, part, linenum, src_stmts, exp_stmts, label, case):
    """The two oracles on one line."""
    src = b'%d ' % linenum + b':'.join(src_stmts)
    exp = b'\x00\xc0\xde' + struct.pack('<H', linenum) + b':'.join(exp_stmts)
    part.n += 1
    try:
        tok = d.tokenise(src)
    except Exception as e:
        part.violation('tokenise/host-exception/%s/%s' % (type(e).__name__, label),
                       'tokenise_line(%r) raised %r' % (src, e), case)
        return None
    if tok != exp:
        part.violation('tokenise/%s' % label,
                       '%s: tokenise(%r) = %r, hand-assembled %r' % (d.syntax, src, tok, exp), case)
        return tok
    try:
        lnum, text = d.list(tok)
        tok2 = d.tokenise(text)
    except Exception as e:
        part.violation('roundtrip/host-exception/%s/%s' % (type(e).__name__, label),
                       'list/re-enter of %r raised %r' % (src, e), case)
        return tok
    if tok2 != tok or lnum != linenum:
        part.violation('roundtrip/%s' % label,
                       '%s: %r tokenises to %r, lists as %r, which re-enters as %r' % (d.syntax, src, tok, text, tok2),
                       case)
    return tok


# ---------------------------------------------------------------------------
# keyword tables


def work_keywords(shard):
    syntax = shard
    part = Partial()
    d = dialect(syntax)
    kd = d.kd
    to_kw, to_tok = kd.to_keyword, kd.to_token
    # identity and uniqueness
    for token, word in to_kw.items():
        part.n += 1
        if to_tok.get(word) != token:
            part.violation('table/keyword-to-token-not-inverse',
                           '%s: token %r -> %r -> %r' % (syntax, token, word, to_tok.get(word)),
                           {'syntax': syntax, 'word': word})
    for word, token in to_tok.items():
        part.n += 1
        if to_kw.get(token) != word:
            part.violation('table/token-to-keyword-not-inverse',
                           '%s: keyword %r -> %r -> %r' % (syntax, word, token, to_kw.get(token)),
                           {'syntax': syntax, 'word': word})
    if len(set(to_kw.values())) != len(to_kw) or len(set(to_tok.values())) != len(to_tok):
        part.violation('table/not-unique', '%s: duplicate keyword or token in the table' % syntax,
                       {'syntax': syntax})
    if len(to_kw) != len(to_tok):
        part.violation('table/size', '%s: %d tokens, %d keywords' % (syntax, len(to_kw), len(to_tok)),
                       {'syntax': syntax})
    # case-insensitive recognition
    for word in sorted(to_tok):
        _keyword_case(d, part, word)
    part.sample({'syntax': syntax, 'keywords': len(to_tok)})
    return part


def _keyword_case(d, part, word):
    syntax = d.syntax
    alpha = any(bytes([c]) in tk.LETTERS for c in word)
    group = 'alpha' if alpha else 'symbol'
    if word.endswith(b'('):
        group = 'paren'
    elif word.endswith(b'$'):
        group = 'dollar'
    part.classes.add('%s:%s' % (syntax, group))
    head = b'\x00\xc0\xde\x0a\x00'
    # the word as a statement of its own, followed by a blank and a digit
    tail_src = b' 1'
    expected = None
    variants = [word, word.lower(), alt_case(word, 0), alt_case(word, 1)] if alpha else [word]
    outs = []
    for v in variants:
        part.n += 1
        src = b'10 ' + v + tail_src
        try:
            outs.append(d.tokenise(src))
        except Exception as e:
            part.violation('keyword/host-exception/%s' % type(e).__name__,
                           'tokenise_line(%r) raised %r' % (src, e), {'syntax': syntax, 'word': word})
            return
    if any(o != outs[0] for o in outs):
        part.violation('keyword/case-sensitive/%s' % group,
                       '%s: %r tokenises differently by capitalisation: %r' % (syntax, word, list(zip(variants, outs))),
                       {'syntax': syntax, 'word': word})
    # the token must be there, right after the line header
    body = outs[0][len(head):]
    if not outs[0].startswith(head) or not body.startswith(d.kw_token(word)):
        part.violation('keyword/not-recognised/%s' % group,
                       '%s: %r tokenises to %r, expected token %r after the line header'
                       % (syntax, word, outs[0], d.kw_token(word)), {'syntax': syntax, 'word': word})
        return
    # and list back as the (upper-case) keyword
    try:
        _n, text = d.list(outs[0])
    except Exception as e:
        part.violation('keyword/list-host-exception/%s' % type(e).__name__,
                       'listing %r raised %r' % (outs[0], e), {'syntax': syntax, 'word': word})
        return
    shown = text[3:]
    want = word
    if not shown.startswith(want) and not (word == b'ELSE'):
        part.violation('keyword/listed-differently/%s' % group,
                       '%s: token of %r lists as %r' % (syntax, word, text), {'syntax': syntax, 'word': word})


# ---------------------------------------------------------------------------
# statements and lines


def instances_full(d, name):
    """All instances of a template for the single-statement leg:
    (lits, jumps, varied class label)."""
    tpl = d.templates[name]
    nn, nj = slots(tpl)
    seen = set()
    out = []

    def add(lits, jumps, lab):
        key = (tuple(l[0] for l in lits), tuple(jumps))
        if key not in seen:
            seen.add(key)
            out.append((tuple(lits), tuple(jumps), lab))

    add([BASE] * nn, [JBASE] * nj, 'base')
    # one slot sweeps the full alphabet
    for i in range(nn):
        for l in LITS:
            lits = [BASE] * nn
            lits[i] = l
            add(lits, [JBASE] * nj, l[2])
    for i in range(nj):
        for j in JUMPS:
            jumps = [JBASE] * nj
            jumps[i] = j
            add([BASE] * nn, jumps, 'jump')
    # all assignments over the small alphabet (<= 3 slots), diagonal otherwise
    if 0 < nn <= 3:
        def rec(prefix):
            if len(prefix) == nn:
                add(list(prefix), [JBASE] * nj, 'mixed')
                return
            for l in SMALL:
                rec(prefix + [l])
        rec([])
    elif nn > 3:
        for k, l in enumerate(SMALL):
            lits = [SMALL[(k + i) % len(SMALL)] for i in range(nn)]
            add(lits, [JBASE] * nj, 'mixed')
    return out


def instances_small(d, name, per):
    """A few instances per template for multi-statement lines."""
    tpl = d.templates[name]
    nn, nj = slots(tpl)
    out = [(tuple([BASE] * nn), tuple([JBASE] * nj))]
    if per > 1 and (nn or nj):
        out.append((tuple(SMALL[(3 + i) % len(SMALL)] for i in range(nn)),
                    tuple(JUMPS[(2 + 3 * i) % len(JUMPS)] for i in range(nj))))
    if per > 2 and nn:
        out.append((tuple(SMALL[(6 + i) % len(SMALL)] for i in range(nn)), tuple([JBASE] * nj)))
    return out


def work_single(shard):
    syntax, names = shard
    part = Partial()
    d = dialect(syntax)
    for name in names:
        tpl = d.templates[name]
        for lits, jumps, lab in instances_full(d, name):
            src, exp = render(d, tpl, lits, jumps)
            case = {'syntax': syntax, 'stmts': [[name, [l[0] for l in lits], list(jumps)]], 'linenum': 10}
            check_line(d, part, 10, [src], [exp], '%s/%s' % (name, lab), case)
            part.classes.add('%s:%s' % (syntax, lab))
            part.classes.add('tpl:%s' % name)
        # other line numbers
        for ln in (0, 1, 65529):
            src, exp = render(d, tpl, [BASE] * slots(tpl)[0], [JBASE] * slots(tpl)[1])
            if ln == 0:
                continue   # a blank after line number 0 is kept as text (GW-BASIC); not canonical
            check_line(d, part, ln, [src], [exp], '%s/linenum' % name,
                       {'syntax': syntax, 'stmts': [[name, [BASE[0]] * slots(tpl)[0], [JBASE] * slots(tpl)[1]]],
                        'linenum': ln})
    part.traces = part.n
    part.sample({'syntax': syntax, 'templates': names[:3]})
    return part


def work_case(shard):
    syntax, names = shard
    part = Partial()
    d = dialect(syntax)
    for name in names:
        tpl = d.templates[name]
        nn, nj = slots(tpl)
        for lits, jumps in instances_small(d, name, 2):
            src0, exp = render(d, tpl, lits, jumps)
            for cs in ('lower', 'alt0', 'alt1'):
                src, _ = render(d, tpl, lits, jumps, cs)
                case = {'syntax': syntax, 'stmts': [[name, [l[0] for l in lits], list(jumps)]],
                        'linenum': 10, 'case': cs}
                check_line(d, part, 10, [src], [exp], '%s/case-%s' % (name, cs), case)
            part.classes.add('%s:case' % syntax)
    part.traces = part.n
    return part


def work_lines(shard):
    """Lines of 2 or 3 statements: shard = (syntax, first statement names, per-template instances, depth)."""
    syntax, firsts, per, depth = shard
    part = Partial()
    d = dialect(syntax)
    inst = {}
    for name in d.templates:
        inst[name] = [(name,) + render(d, d.templates[name], lits, jumps) + ([l[0] for l in lits], list(jumps))
                      for lits, jumps in instances_small(d, name, per)]
    allinst = [i for name in sorted(inst) for i in inst[name]]
    nonlast = [i for i in allinst if i[0] not in LAST_ONLY]
    for first in firsts:
        if first in LAST_ONLY:
            continue
        for a in inst[first]:
            for b in allinst:
                seqs = [[a, b]]
                if depth >= 3 and b[0] not in LAST_ONLY:
                    # third statement: one instance per template
                    seqs = [[a, b]] + [[a, b, inst[c][0]] for c in sorted(inst)]
                for seq in seqs:
                    case = {'syntax': syntax, 'stmts': [[s[0], s[3], s[4]] for s in seq], 'linenum': 10}
                    check_line(d, part, 10, [s[1] for s in seq], [s[2] for s in seq],
                               'line/%s' % '+'.join(s[0] for s in seq[-2:]), case)
        part.classes.add('first-%s' % first)
    part.traces = part.n
    part.sample({'syntax': syntax, 'first': firsts[:2], 'depth': depth})
    return part


def work_session(shard):
    """The same fixed point through the public seam: type the line into a Session, LIST it,
    NEW, type the listed text, compare program memory."""
    from mc import harness as H
    syntax, names = shard
    part = Partial()
    d = dialect(syntax)
    s = H.new_session(syntax=syntax)
    for name in names:
        tpl = d.templates[name]
        for lits, jumps in instances_small(d, name, 3):
            src, exp = render(d, tpl, lits, jumps)
            case = {'syntax': syntax, 'stmts': [[name, [l[0] for l in lits], list(jumps)]], 'linenum': 10}
            part.n += 1
            part.traces += 1
            mem = []
            text = b'10 ' + src
            bad = None
            for _round in (0, 1):
                r = H.run(s, b'NEW')
                r = H.run(s, text)
                if r.exc is not None or r.out:
                    bad = ('session/line-not-stored/%s' % name, 'typing %r gave %r' % (text, r))
                    break
                mem.append(s._impl.program.bytecode.getvalue())
                r = H.run(s, b'LIST')
                if r.exc is not None:
                    bad = ('session/list-host-exception/%s' % name, 'LIST of %r raised %r' % (text, r.exc))
                    break
                text = r.out.replace(b'\r\n', b'')
            if bad is None and mem[0] != mem[1]:
                bad = ('session/roundtrip/%s' % name,
                       '%s: typed %r is stored as %r; its listing %r is stored as %r'
                       % (syntax, b'10 ' + src, mem[0], text, mem[1]))
            if bad is None and exp not in mem[0]:
                bad = ('session/tokenise/%s' % name,
                       '%s: typed %r is stored as %r, hand-assembled tokens %r' % (syntax, b'10 ' + src, mem[0], exp))
            if bad:
                part.violation(bad[0], bad[1], case)
            part.classes.add('session:%s' % syntax)
    return part


def legs(ctx):
    out = []
    out.append(Leg('keywords', list(DIALECTS), work_keywords, exhaustive=True,
                   bound='every keyword of the advanced / pcjr / tandy tables x 4 capitalisations'))
    single = []
    cases = []
    for syn in DIALECTS:
        names = sorted(dialect(syn).templates)
        for c in chunked(names, 4):
            single.append((syn, c))
        for c in chunked(names, 10):
            cases.append((syn, c))
    out.append(Leg('single', single, work_single, exhaustive=True,
                   bound='every template x (each number slot over all %d literals, each jump slot over %d jump '
                         'numbers, all assignments of the 8-literal small alphabet for <=3 slots) x 3 dialects'
                         % (len(LITS), len(JUMPS))))
    out.append(Leg('case', cases, work_case, exhaustive=True,
                   bound='every template x 2 instances x lower / alternating / inverse alternating case x 3 dialects'))
    out.append(Leg('session', [(syn, c) for syn in DIALECTS for c in chunked(sorted(dialect(syn).templates), 8)],
                   work_session, exhaustive=True,
                   bound='every template x 3 instances typed into a Session of each dialect, LIST, NEW, re-typed'))
    lines = []
    if ctx.quick:
        for syn in DIALECTS:
            for name in sorted(dialect(syn).templates):
                lines.append((syn, [name], 2, 2))
        bound = 'every line stmt:stmt over 2 instances per template (all ordered pairs) x 3 dialects'
    else:
        for syn in DIALECTS:
            for name in sorted(dialect(syn).templates):
                lines.append((syn, [name], 2, 3))
        bound = ('every line stmt:stmt over 2 instances per template and every line stmt:stmt:stmt with '
                 'the third over 1 instance per template x 3 dialects')
    out.append(Leg('lines', lines, work_lines, exhaustive=True, bound=bound))
    return out


def replay(ctx, leg, case):
    part = Partial()
    d = dialect(case['syntax'])
    if leg == 'session':
        return work_session((case['syntax'], [case['stmts'][0][0]]))
    if leg == 'keywords':
        if 'word' in case:
            _keyword_case(d, part, case['word'])
        else:
            return work_keywords(case['syntax'])
        return part
    by_text = dict((l[0], l) for l in LITS)
    srcs, exps = [], []
    for name, lits, jumps in case['stmts']:
        src, exp = render(d, d.templates[name], [by_text[t] for t in lits], jumps, case.get('case'))
        _s, exp = render(d, d.templates[name], [by_text[t] for t in lits], jumps)
        srcs.append(src)
        exps.append(exp)
    check_line(d, part, case.get('linenum', 10), srcs, exps, 'replay', case)
    return part
