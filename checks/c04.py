"""
C04 - single/double + - * / stay within the stated error of the exact result;
Overflow / Division by zero / underflow-to-zero happen exactly where stated.

E1 (structured full products on the real values.add/sub/mul/div):

  addsub-single/double  mantissa pair product x (base exponent, alignment shift d) x both
                        operand orders x sign combinations x {+,-}: every alignment shift the
                        algorithm can distinguish (0..34 for the 32-bit work mantissa, 0..66 for
                        the 64-bit one) plus far-apart exponents, at both ends and the middle of
                        the exponent range
  muldiv-mant-*         large mantissa pair product at centre exponents x signs x {*,/}
  muldiv-exp-*          exponent-byte pairs (thorough: ALL 255x255) x 8x8 mantissa pairs that
                        straddle the normalisation boundary (sqrt(1/2) neighbours, all-ones,
                        power of two): the overflow / underflow thresholds
  zero                  all zero encodings (zero exponent byte with any mantissa/sign) as either
                        operand of every operator, division by zero, hard and soft-handled
  session               end-to-end: R$=MKS$(CVS(A$) op CVS(B$)) in direct mode (soft handling on
                        the real console) and under ON ERROR GOTO (ERR)

Every hard Overflow / Division by zero found is re-run on a Values object with a console
(soft handling) and must give the signed maximum and one message.
Oracle: models/mbf.judge_arith - exact integer arithmetic.
"""
import struct

from mc.core import Leg, Partial, CheckError, from_pcbasic, chunked
from mc import num
from models import mbf
from pcbasic.basic.values import values as V
from pcbasic.basic.values import numbers as N
from pcbasic.basic.base import error

PROPERTY = 'C04'
ENGINE = 'E1 domain'
LEVEL = 'model_checking'
LEVEL_TEXT = (
    'Bounded exhaustive enumeration of operand pairs on the real values.add/sub/mul/div: the full product of a fixed '
    'alphabet of rounding-critical mantissas (guard-byte, tie, carry and cancellation patterns) with every exponent '
    'alignment the algorithm can distinguish (0..34 bits for singles, 0..66 for doubles, both operand orders, all '
    'sign combinations) at the bottom, middle and top of the exponent range; for * and / additionally every pair of '
    'exponent bytes (thorough: all 255x255) with mantissas straddling the normalisation boundary. Each result is '
    'compared with the exact rational result in integer arithmetic (<= 2 ulp for + -, < 1 ulp for * /, Overflow, '
    'Division by zero, zero only below 2^-128), in hard and soft-handled mode.')
LEVEL_NOTE = ('Not a proof over all 2^64 / 2^128 operand pairs: a rounding error that needs a specific mantissa '
              'outside the alphabets is not covered. Trusted base: models/mbf.py (MBF decoding, Python int arithmetic).')
TECHNIQUE = ('bounded exhaustive enumeration of (mantissa pattern, exponent alignment, sign, order) products on the '
             'real float operators against an exact integer-arithmetic oracle')
RULE = ('full product of fixed alphabets: mantissa patterns x exponent pairs x signs x operand order x operator; '
        'a case class is (operator, type, signs, outcome kind: exact / inexact / inexact>1ulp / overflow / '
        'overflow-edge / underflow / zero / division by zero); non-trivial = everything except (+,+,exact)')
ASSUMPTIONS = [
    'internal seam: values.add/sub/mul/div on Single/Double objects built from bytes; Values with FloatErrorHandler(None) '
    'for the raising path and FloatErrorHandler(recording console) for the soft-handled path',
    'MAX < |exact| < 2^127 (the exact result exceeds the largest number by less than one unit): the statement demands '
    'both Overflow and an error below one unit; Overflow and the largest number are both accepted; '
    '|exact| >= 2^127 must raise Overflow, |exact| <= MAX must not',
    '|exact| < 2^-128: zero and a correctly rounded smallest number are both accepted',
    'the unit in the last place is that of the returned result (2^(exponent byte - 128 - mantissa bits))',
    '0/0: either sign of the maximum is accepted; x/0 must carry the sign of x',
    'soft-handled message text is compared with pcbasic\'s own message table (relative)',
]

OV = error.OVERFLOW
DZ = error.DIVISION_BY_ZERO
BASICError = error.BASICError
OPS = {'add': V.add, 'sub': V.sub, 'mul': V.mul, 'div': V.div}
CLS = {4: N.Single, 8: N.Double}
SIGNS4 = ((False, False), (False, True), (True, False), (True, True))


class Env(object):
    def __init__(self):
        self.vals = num.make_values()
        self.svals, self.con = num.make_values_soft()
        self.A = {s: c(None, self.vals) for s, c in CLS.items()}
        self.B = {s: c(None, self.vals) for s, c in CLS.items()}
        self.SA = {s: c(None, self.svals) for s, c in CLS.items()}
        self.SB = {s: c(None, self.svals) for s, c in CLS.items()}


def _key(op, fmt, suffix):
    if suffix == 'premature-underflow':
        return 'mul/double-premature-underflow'
    return '%s/%s/%s' % (op, fmt.name, suffix)


def _fmt_case(op, fmt, a, b):
    return {'op': op, 'type': fmt.name, 'a': fmt.bytes(*a), 'b': fmt.bytes(*b)}


def check_soft(part, env, op, fmt, a, b, code):
    """The hard path raised `code`; the soft-handled path must return the signed maximum."""
    size = fmt.size
    SA, SB = env.SA[size], env.SB[size]
    SA._buffer[:] = fmt.bytes(*a)
    SB._buffer[:] = fmt.bytes(*b)
    con = env.con
    del con.lines[:]
    case = _fmt_case(op, fmt, a, b)
    case['mode'] = 'soft'
    try:
        r = OPS[op](SA, SB)
    except BASICError as e:
        part.violation(_key(op, fmt, 'soft-raised'), '%s %s %s soft-handled: raised error %r' % (
            case['a'].hex(), op, case['b'].hex(), e.err), case)
        return
    except Exception as e:
        if from_pcbasic(e):
            part.violation(_key(op, fmt, 'host-exception/' + type(e).__name__), repr(e), case)
            return
        raise
    part.n += 1
    if code == DZ:
        neg = None if a[1] == 0 else a[0]
    else:
        neg = mbf.overflow_sign(op, fmt, a, b)
    rb = bytes(r._buffer)
    okv = (rb == fmt.neg_max) if neg else (rb == fmt.pos_max) if neg is not None else rb in (fmt.pos_max, fmt.neg_max)
    if type(r) is not CLS[size] or not okv:
        part.violation(_key(op, fmt, 'soft-not-signed-max'), '%s %s %s soft-handled (%s): got %s, expected %s maximum' % (
            case['a'].hex(), op, case['b'].hex(), 'Overflow' if code == OV else 'Division by zero', rb.hex(),
            'negative' if neg else 'positive'), case)
    msg = BASICError(code).message
    if con.lines != [msg]:
        part.violation(_key(op, fmt, 'soft-message'), '%s %s %s soft-handled: console got %r, expected [%r]' % (
            case['a'].hex(), op, case['b'].hex(), con.lines, msg), case)


def run_pairs(part, env, fmt, op, pairs, soft=True):
    """Evaluate op on every (a, b) operand pair (triples (neg, exp, man)) and judge the outcome."""
    size = fmt.size
    A, B = env.A[size], env.B[size]
    abuf, bbuf = A._buffer, B._buffer
    code = fmt.code
    word = fmt.word
    unword = fmt.unword
    cls = CLS[size]
    fn = OPS[op]
    judge = mbf.judge_arith
    pack = struct.pack_into
    unpack = struct.unpack
    classes = part.classes
    outcomes = part.outcomes
    n = 0
    tch = fmt.name[0]
    prev = None
    for a, b in pairs:
        wa = word(*a)
        wb = word(*b)
        pack(code, abuf, 0, wa)
        pack(code, bbuf, 0, wb)
        try:
            r = fn(A, B)
            if type(r) is not cls:
                part.violation(_key(op, fmt, 'wrong-type'), '%r' % (r,), _fmt_case(op, fmt, a, b))
                continue
            got = ('ok', unword(unpack(code, r._buffer)[0]))
            # a result stays what it was while later operations run (an expression holds several)
            if prev is not None and (unpack(code, prev[0]._buffer)[0] != prev[1] or prev[0] is r):
                part.violation(_key(op, fmt, 'earlier-result-changed'), 'the result of the previous operation changed '
                               'when this one was computed (or the same object was returned)', _fmt_case(op, fmt, a, b))
            prev = (r, unpack(code, r._buffer)[0])
        except BASICError as e:
            got = ('err', e.err)
        except Exception as e:
            if from_pcbasic(e):
                part.violation(_key(op, fmt, 'host-exception/' + type(e).__name__), repr(e), _fmt_case(op, fmt, a, b))
                continue
            raise
        n += 1
        problem, label = judge(op, fmt, a, b, got)
        if problem is not None:
            case = _fmt_case(op, fmt, a, b)
            part.violation(_key(op, fmt, problem[0]), '%s %s %s %s: got %s; %s' % (
                fmt.name, case['a'].hex(), op, case['b'].hex(),
                fmt.bytes(*got[1]).hex() if got[0] == 'ok' else 'error %d' % got[1], problem[1]), case)
        if unpack(code, abuf)[0] != wa or unpack(code, bbuf)[0] != wb:
            part.violation(_key(op, fmt, 'operand-modified'), 'operands changed by the operation',
                           _fmt_case(op, fmt, a, b))
        cl = '%s %s %s%s %s' % (op, tch, '-' if a[0] else '+', '-' if b[0] else '+', label)
        classes.add(cl)
        outcomes[label] = outcomes.get(label, 0) + 1
        if got[0] == 'err' and soft:
            check_soft(part, env, op, fmt, a, b, got[1])
    part.n += n
    part.traces += n


# ---------------------------------------------------------------------------
# add / sub

def addsub_ds(fmt, quick):
    if fmt is mbf.SNG:
        if quick:
            return [0, 1, 2, 3, 7, 8, 9, 10, 15, 16, 17, 22, 23, 24, 25, 26, 30, 31, 32, 33, 34, 64]
        return list(range(0, 36)) + [40, 64, 128, 254]
    if quick:
        return [0, 1, 2, 7, 8, 9, 10, 16, 31, 32, 33, 47, 48, 49, 54, 55, 56, 57, 58, 62, 63, 64, 65, 66, 128]
    return list(range(0, 68)) + [72, 100, 128, 254]


def addsub_bases(d):
    s = []
    for e in (1, 2, 0x80, 254 - d, 255 - d):
        if e >= 1 and e + d <= 255 and e not in s:
            s.append(e)
    return s


def addsub_mants(fmt, quick):
    if fmt is mbf.SNG:
        return mbf.mant_set(24, 1) if quick else mbf.mant_set(24, 2)
    return mbf.pick(mbf.mant_set(56, 1), 40) if quick else mbf.mant_set(56, 1)


QUICK_COMBOS = (('add', False, False), ('add', False, True), ('sub', False, False), ('sub', True, False))
FULL_COMBOS = tuple((op, sa, sb) for op in ('add', 'sub') for sa, sb in SIGNS4)


def work_addsub(shard):
    size, quick, d, e = shard
    fmt = mbf.BY_SIZE[size]
    part = Partial()
    env = Env()
    mans = addsub_mants(fmt, quick)
    combos = QUICK_COMBOS if quick else FULL_COMBOS
    # (for d == 0 the pair product already contains both operand orders)
    for op, sa, sb in combos:
        def gen():
            for ma in mans:
                for mb in mans:
                    yield (sa, e, ma), (sb, e + d, mb)
                    if d:
                        yield (sa, e + d, ma), (sb, e, mb)
        run_pairs(part, env, fmt, op, gen())
    part.sample({'type': fmt.name, 'd': d, 'base_exp': e, 'mantissas': len(mans)})
    return part


# ---------------------------------------------------------------------------
# mul / div

def muldiv_mants(fmt, quick):
    if fmt is mbf.SNG:
        return mbf.pick(mbf.mant_set(24, 3), 400) if quick else mbf.mant_set(24, 3)
    return mbf.pick(mbf.mant_set(56, 3), 300) if quick else mbf.pick(mbf.mant_set(56, 3), 1000)


MANT_EXPS = ((0x81, 0x81), (0x70, 0x95))


def work_muldiv_mant(shard):
    size, quick, lo, hi = shard
    fmt = mbf.BY_SIZE[size]
    part = Partial()
    env = Env()
    mans = muldiv_mants(fmt, quick)
    signs = ((False, False), (True, False)) if quick else SIGNS4
    for op in ('mul', 'div'):
        def gen():
            for ma in mans[lo:hi]:
                for mb in mans:
                    for ea, eb in (MANT_EXPS[:1] if quick else MANT_EXPS):
                        for sa, sb in signs:
                            yield (sa, ea, ma), (sb, eb, mb)
        run_pairs(part, env, fmt, op, gen())
    part.sample({'type': fmt.name, 'mantissas': [lo, hi], 'of': len(mans)})
    return part


def exp_mants(fmt):
    nb = fmt.nbits
    import math
    r = math.isqrt(1 << (2 * nb - 1))
    full = fmt.full
    return [fmt.top, fmt.top | 1, r, r + 1, fmt.top | (fmt.top >> 1), full - 1, full,
            int('aa' * (nb // 8), 16)]


EXP_EDGE = (1, 2, 3, 0x20, 0x21, 0x40, 0x41, 0x7f, 0x80, 0x81, 0x82, 0xa0, 0xa1, 0xc0, 0xfd, 0xfe, 0xff)


def work_muldiv_exp(shard):
    size, quick, ea_list = shard
    fmt = mbf.BY_SIZE[size]
    part = Partial()
    env = Env()
    mans = exp_mants(fmt)
    signs = ((False, True),) if quick else ((False, False), (False, True))
    if quick:
        epairs = set()
        for ea in ea_list:
            for eb in EXP_EDGE:
                epairs.add((ea, eb))
                epairs.add((eb, ea))
        epairs = sorted(epairs)
    else:
        epairs = [(ea, eb) for ea in ea_list for eb in range(1, 256)]
    for op in ('mul', 'div'):
        def gen():
            for ea, eb in epairs:
                for ma in mans:
                    for mb in mans:
                        for sa, sb in signs:
                            yield (sa, ea, ma), (sb, eb, mb)
        run_pairs(part, env, fmt, op, gen())
    part.sample({'type': fmt.name, 'exp_a': ea_list[:3], 'pairs': len(epairs)})
    return part


# ---------------------------------------------------------------------------
# zeros and division by zero

def work_zero(shard):
    size, = shard
    fmt = mbf.BY_SIZE[size]
    part = Partial()
    env = Env()
    zm = mbf.pick(mbf.mant_set(fmt.nbits, 1), 12)
    zeros = [(neg, 0, m) for neg in (False, True) for m in zm]
    xs = [(neg, e, m) for neg in (False, True) for e in (1, 2, 0x7f, 0x80, 0x81, 0xfe, 0xff)
          for m in mbf.mant_set(fmt.nbits, 1)]
    for op in ('add', 'sub', 'mul', 'div'):
        def gen():
            for z in zeros:
                for x in xs:
                    yield z, x
                    yield x, z
                for z2 in zeros:
                    yield z, z2
        run_pairs(part, env, fmt, op, gen())
    part.sample({'type': fmt.name, 'zeros': len(zeros), 'values': len(xs)})
    return part


# ---------------------------------------------------------------------------
# end-to-end through a Session

def _session_cases():
    S, D = mbf.SNG, mbf.DBL
    out = []
    for fmt in (S, D):
        top, full = fmt.top, fmt.full
        one = (False, 0x81, top)
        for op, a, b in (
                ('add', one, one), ('add', (False, 0xff, full), (False, 0xff, full)),
                ('add', (True, 0xff, full), (True, 0xe0, top)), ('add', (False, 0xff, full), (False, 0x10, top)),
                ('sub', (True, 0xff, full), (False, 0xff, top)), ('sub', one, one),
                ('sub', (False, 1, top | 1), (False, 1, top)),
                ('mul', (False, 0xc0, top | 5), (False, 0xc1, full)), ('mul', (True, 0xc0, top | 5), (False, 0xc1, full)),
                ('mul', (False, 0x40, top), (False, 0x40, top)), ('mul', (False, 0x41, top), (False, 0x40, full)),
                ('mul', (False, 0x1c, top | 0x1234), one),        # tiny * 1
                ('mul', (False, 0x61, full), (False, 0x21, top)),
                ('mul', (False, 0x90, full), (True, 0x83, top | 3)),
                ('div', one, (False, 0, 0)), ('div', (True, 0x81, top), (False, 0, 0)),
                ('div', (False, 0xf0, top), (False, 0x10, top)), ('div', (True, 0xf0, full), (False, 0x10, top)),
                ('div', (False, 0x10, top), (False, 0xf0, full)), ('div', (False, 0x84, full), (False, 0x82, top | 0x31)),
        ):
            out.append((fmt.size, op, a, b))
    return out


_SYM = {'add': b'+', 'sub': b'-', 'mul': b'*', 'div': b'/'}


def work_session(shard):
    from mc import harness as H
    part = Partial()
    s = H.new_session()
    for size, op, a, b in shard:
        fmt = mbf.BY_SIZE[size]
        cv, mk = (b'CVS', b'MKS$') if size == 4 else (b'CVD', b'MKD$')
        ab, bb = fmt.bytes(*a), fmt.bytes(*b)
        case = _fmt_case(op, fmt, a, b)
        case['mode'] = 'session'
        expr = cv + b'(A$)' + _SYM[op] + cv + b'(B$)'
        # what the raising path must do
        ex = mbf.exact_arith(op, fmt, a, b)
        # ---- direct mode: soft handling on the real console
        H.run(s, b'NEW')
        # (pcbasic keeps the float handler suspended after a program that used ON ERROR GOTO, even
        # across NEW/RUN; that reset question belongs to C21/C23, so switch trapping off explicitly)
        H.run(s, b'ON ERROR GOTO 0')
        s.set_variable(b'A$', ab)
        s.set_variable(b'B$', bb)
        r = H.run(s, b'R$=' + mk + b'(' + expr + b')')
        part.n += 1
        part.traces += 1
        if r.exc is not None:
            part.violation(_key(op, fmt, 'session-host-exception/' + H.exc_key(r.exc)), repr(r.exc), case)
            continue
        rb = s.get_variable(b'R$')
        if r.err is not None or len(rb) != size:
            part.violation(_key(op, fmt, 'session-error'), 'direct %s: error %r, R$=%r' % (expr, r.err, rb), case)
            continue
        got = ('ok', fmt.unbytes(rb))
        problem, label = mbf.judge_arith(op, fmt, a, b, got)
        soft_code = None
        if r.soft:
            soft_code = r.soft[0]
            # soft-handled: must be a legitimate Overflow / Division by zero and give the signed maximum
            problem, label = mbf.judge_arith(op, fmt, a, b, ('err', soft_code))
            if problem is None:
                neg = (None if a[1] == 0 else a[0]) if soft_code == DZ else mbf.overflow_sign(op, fmt, a, b)
                want = (fmt.neg_max,) if neg else (fmt.pos_max,) if neg is not None else (fmt.pos_max, fmt.neg_max)
                if rb not in want or len(r.soft) != 1:
                    problem = ('soft-not-signed-max', 'soft-handled result %s, messages %r' % (rb.hex(), r.soft))
        if problem is not None:
            part.violation(_key(op, fmt, problem[0]), 'session direct mode %s with A$=%s B$=%s: R$=%s soft=%r; %s' % (
                expr.decode(), ab.hex(), bb.hex(), rb.hex(), r.soft, problem[1]), case)
        part.classes.add('session-direct %s %s %s' % (op, fmt.name[0], label))
        # ---- program with ON ERROR GOTO: the error must be trappable with the right ERR
        lit = lambda x: b'+'.join(b'CHR$(%d)' % c for c in x)
        H.run(s, b'NEW')
        H.enter_program(s, [
            b'10 ON ERROR GOTO 50',
            b'20 A$=' + lit(ab) + b':B$=' + lit(bb),
            b'30 R$=' + mk + b'(' + expr + b'):E%=0',
            b'40 END',
            b'50 E%=ERR:RESUME 40',
        ])
        r2 = H.run(s, b'RUN')
        part.n += 1
        part.traces += 1
        if r2.exc is not None:
            part.violation(_key(op, fmt, 'session-host-exception/' + H.exc_key(r2.exc)), repr(r2.exc), case)
            continue
        e = s.get_variable(b'E%')
        rb2 = s.get_variable(b'R$')
        if e:
            got2 = ('err', e)
        elif len(rb2) == size:
            got2 = ('ok', fmt.unbytes(rb2))
        else:
            got2 = ('err', -1)
        problem2, label2 = mbf.judge_arith(op, fmt, a, b, got2)
        if problem2 is None and (soft_code or 0) != (e or 0):
            problem2 = ('trap-differs-from-soft', 'direct mode soft error %r but ON ERROR saw ERR=%r' % (soft_code, e))
        if problem2 is not None or r2.err is not None or r2.soft:
            part.violation(_key(op, fmt, (problem2 or ('session-untrapped', ''))[0]),
                           'program with ON ERROR GOTO, %s with A$=%s B$=%s: ERR=%r R$=%s out=%r; %s' % (
                               expr.decode(), ab.hex(), bb.hex(), e, rb2.hex(), r2.out, (problem2 or ('', ''))[1]), case)
        part.classes.add('session-trap %s %s %s' % (op, fmt.name[0], label2))
    part.sample({'session_cases': len(shard)})
    return part


# ---------------------------------------------------------------------------

def legs(ctx):
    q = ctx.quick
    out = []
    for fmt in (mbf.SNG, mbf.DBL):
        ds = addsub_ds(fmt, q)
        shards = [(fmt.size, q, d, e) for d in ds for e in addsub_bases(d)]
        nm = len(addsub_mants(fmt, q))
        out.append(Leg('addsub-' + fmt.name, shards, work_addsub, exhaustive=False, bound=(
            '%d x %d mantissa pairs x alignment shifts d in %s x base exponent bytes {1,2,80h,254-d,255-d} x both orders '
            'x %s' % (nm, nm, _ranges(ds), '{a+b, a+(-b), a-b, (-a)-b}' if q else '{+,-} x 4 sign combinations'))))
    for fmt in (mbf.SNG, mbf.DBL):
        nm = len(muldiv_mants(fmt, q))
        step = 8 if q else (16 if fmt is mbf.SNG else 8)
        shards = [(fmt.size, q, lo, min(lo + step, nm)) for lo in range(0, nm, step)]
        out.append(Leg('muldiv-mant-' + fmt.name, shards, work_muldiv_mant, exhaustive=False, bound=(
            '%d x %d mantissa pairs x {*,/} x %s at exponent bytes %s' % (
                nm, nm, '2 sign combinations' if q else '4 sign combinations',
                '(81h,81h)' if q else '(81h,81h),(70h,95h)'))))
    for fmt in (mbf.SNG, mbf.DBL):
        shards = [(fmt.size, q, c) for c in chunked(range(1, 256), 5 if q else 2)]
        out.append(Leg('muldiv-exp-' + fmt.name, shards, work_muldiv_exp, exhaustive=False, bound=(
            ('(all 255 exponent bytes x %d edge bytes, both orders)' % len(EXP_EDGE) if q else 'all 255 x 255 exponent byte pairs')
            + ' x 8 x 8 mantissas straddling the normalisation boundary x {*,/} x %d sign combinations' % (1 if q else 2))))
    out.append(Leg('zero', [(4,), (8,)], work_zero, exhaustive=False,
                   bound='24 zero encodings (zero exponent byte, any mantissa/sign) x (2 signs x 7 exponent bytes x 61/121 '
                         'mantissas, both orders; all zero pairs) x {+,-,*,/}, hard and soft'))
    out.append(Leg('session', list(chunked(_session_cases(), 5)), work_session, exhaustive=False,
                   bound='%d operand pairs end-to-end in direct mode (soft handling) and under ON ERROR GOTO' % len(_session_cases())))
    return out


def _ranges(ds):
    out = []
    i = 0
    while i < len(ds):
        j = i
        while j + 1 < len(ds) and ds[j + 1] == ds[j] + 1:
            j += 1
        out.append('%d' % ds[i] if i == j else '%d..%d' % (ds[i], ds[j]))
        i = j + 1
    return '{' + ','.join(out) + '}'


def replay(ctx, leg, case):
    part = Partial()
    fmt = mbf.SNG if case['type'] == 'single' else mbf.DBL
    a = fmt.unbytes(bytes(case['a']))
    b = fmt.unbytes(bytes(case['b']))
    if case.get('mode') == 'session':
        return work_session([(fmt.size, case['op'], a, b)])
    env = Env()
    run_pairs(part, env, fmt, case['op'], [(a, b)])
    return part
