"""
C08 - PRINT USING produces fields of the declared width with correctly rounded digits.

E1 (domain enumeration on the real formatter, exact-arithmetic analysis of every output):
  number : ALL well-formed numeric fields  [+][**|$$|**$] #/, [.#*] [^^^^] [+|-]  up to a bound on the number
           of digit positions  x  a fixed alphabet of values of all three types, through
           formatter.NumberField (field parsing + formatting)
  wide   : the 23/24/25-position boundary fields x the same values
  string : fields ! & and backslash fields of width 2..8 x strings of length 0..w+1 and 255, through StringField
  stmt   : PRINT USING through Session.execute into a captured stream: binding of the seam, format string
           cycling (2 fields x 3 values, literals, escape character), string/number mismatch
Oracle: models/using.py analyses every output string against the field (width or % rule, sign / $ / * fill /
comma / decimal point / exponent placement, digits = value rounded to the field's decimals).
"""
from fractions import Fraction

from mc.core import Leg, Partial, CheckError, chunked, from_pcbasic
from mc import num
from mc import nosleep
from models import using as U
from pcbasic.basic.base import codestream, error
from pcbasic.basic.devices import formatter as F
from pcbasic.basic.values import numbers as N

nosleep.install()

PROPERTY = 'C08'
ENGINE = 'E1 domain'
LEVEL = 'model_checking'
LEVEL_TEXT = (
    'Every well-formed numeric field with up to 6 (quick) / 12 (thorough) digit positions - all combinations of '
    'leading +, ** / $$ / **$, # and comma patterns, decimal part, ^^^^ and trailing sign - plus the 23/24/25 '
    'position boundary fields is applied by the real NumberField to a fixed alphabet of about 100 values of all '
    'three types (zero, ties such as .5 / 9.995 / 999.5, numbers one ulp around powers of ten, largest and '
    'smallest numbers, integers); every output string is analysed exactly: width or % rule, fill, sign, $, '
    'comma grouping, decimals, exponent part, and the shown digits against the exact stored value. String '
    'fields and format-string cycling are enumerated over small complete alphabets, the latter through PRINT USING.')
LEVEL_NOTE = (
    'Trusted: models/using.py (output analyser written from the statement and the manual) and exact MBF decoding. '
    'Rounding is accepted within half a unit of the last shown digit (or of the 7th/16th significant digit) plus '
    'one binary ulp. Values outside the alphabet and fields between 13 and 22 positions are not covered.')
TECHNIQUE = ('bounded exhaustive enumeration of (field, value) on the real formatter.NumberField/StringField and '
             'PRINT USING against an exact output analyser')
RULE = ('all fields derivable from the grammar within the position bound x all values of the alphabet; a case class '
        'is (field shape: prefix, comma, decimals?, ^^^^, sign position; value class; outcome: fits / percent); '
        'non-trivial = everything but a plain ### field with a small positive integer')
ASSUMPTIONS = [
    'internal seam: formatter.NumberField(CodeStream(field)).format(value), formatter.StringField; the stmt leg binds '
    'them to PRINT USING output',
    'a zero before the decimal point is optional (GW-BASIC shows it only if there is room)',
    'rounding: |shown - stored| <= half a unit of the last shown digit (or of the 7th / 16th significant digit if the '
    'field asks for more digits than the type has) + one binary ulp ("within the accuracy of decimal conversion")',
    'in a ^^^^ field one position before the point is kept for the sign unless the field has a sign position or a $ '
    '(manual / GW-BASIC corpus): with a place for the sign a number always fits, so % is not accepted there',
    'a ^^^^ field shows a non-zero number with as many digits before the point as it has positions there (less the one '
    'kept for the sign): the exponent is adjusted to fill the field (manual; holds for every field x value of the thorough tier)',
    'exponent letter E or D both accepted; a negative value shown as zero may or may not carry its sign',
    'scientific notation with no digit at all (zero, or a field with at most one position before the point and no '
    'decimals, e.g. "#^^^^") is what GW-BASIC prints (tests/basic/gwbasic/PRINT_USING_scientific); accepted',
    'fields with 25 or more digit positions: Illegal function call or a well-formed output both accepted; '
    '24 positions must work',
    'format string cycling: literal text following the last used field is printed up to the next field (GW-BASIC); '
    'an output without it is accepted as well',
]

BASICError = error.BASICError


# ---------------------------------------------------------------------------
# values

def value_texts():
    """(text, type) - read through from_repr only to obtain *some* stored value; the oracle uses its exact bytes."""
    out = []
    for t in ['0', '1', '-1', '2', '9', '10', '-10', '99', '100', '999', '1000', '-1000', '12345', '32767', '-32768']:
        out.append(t)                                        # integers
    sng = ['.5', '-.5', '.05', '.005', '-.005', '.0005', '1.5', '2.5', '9.5', '9.95', '9.995', '99.95', '99.5',
           '999.5', '.9999999', '-.9999999', '.99', '.999', '.09', '.94', '.95', '-.95', '1234567', '12345.67',
           '-12345.67', '123.4567', '1.234567', '.1234567', '.01234567', '1E-10', '-1E-10', '1E10', '1.5E10',
           '9999999', '99999.99', '1E38', '1.701411E38', '2.938736E-39', '1E-38', '1E7', '1E6', '999999.9',
           '1000000', '65536', '.1', '.2', '3.333333', '6.666667', '-6.666667', '16777216', '.0625', '5E-5']
    out += [t + '!' if 'E' not in t else t for t in sng]
    dbl = ['.5#', '-.5#', '9.995#', '999.5#', '.9999999999999999#', '1234567890123456#', '-1234567.890123456#',
           '123456789.0123456#', '1D-10', '1D10', '1D15', '1D16', '9999999999999999#', '1.701411834604692D38',
           '2.938735877055719D-39', '.1#', '3.333333333333333#', '6.666666666666667#', '99.99999999999999#',
           '1D-38', '65536#', '.0625#', '2.5#', '.05#', '0#']
    out += dbl
    return out


def near_pow10_values(vals):
    """Stored values one ulp below / at / above 10^k (k=-3..9) as singles, (k=-2..3) as doubles."""
    out = []
    for size, ks in ((4, range(-3, 10)), (8, range(-2, 4))):
        nbits = (size - 1) * 8
        for k in ks:
            r = num.fraction_to_mbf_floor(Fraction(10) ** k, size)
            neg, expb, man, exact = r
            o = (expb << (nbits - 1)) | (man - (1 << (nbits - 1)))
            for d in (-1, 0, 1):
                oo = o + d
                e2, m2 = oo >> (nbits - 1), (oo & ((1 << (nbits - 1)) - 1)) | (1 << (nbits - 1))
                for ng in (False, True) if d == -1 else (False,):
                    out.append(num.pack_mbf(ng, e2, m2, size))
    return out


def build_values(vals):
    """list of (label, Value object)."""
    res = []
    for t in value_texts():
        v = vals.from_repr(t.encode('ascii'), False)
        res.append((t, v))
    for b in near_pow10_values(vals):
        res.append(('bytes:' + b.hex(), vals.from_bytes(b)))
    return res


def exact_of(v):
    """(Fraction value, Fraction ulp, precision digits) of a Number as PRINT USING sees it (ints -> single)."""
    if isinstance(v, N.Integer):
        i = v.to_int()
        b = bytes(N.Single(None, v._values).from_int(i).to_bytes())
    else:
        b = bytes(v.to_bytes())
    return num.mbf_to_fraction(b), (num.ulp(b) if b[-1] else Fraction(0)), (7 if len(b) == 4 else 16)


def vclass(fr):
    a = abs(fr)
    s = '-' if fr < 0 else ''
    if a == 0:
        return '0'
    if a < Fraction(1, 1000):
        return s + 'tiny'
    if a < 1:
        return s + 'frac'
    if a < 1000:
        return s + 'small'
    if a < 10 ** 7:
        return s + 'mid'
    return s + 'huge'


def input_class(sp, fr, ulp, out, prec):
    """Class of the (field, value) pair that matters for rounding: does the value round up to a power of ten at
    the precision shown, or does it lie completely below the last decimal place of a fixed-point field?"""
    av = abs(fr)
    if av == 0:
        return 'zero'
    e10 = 0
    p = Fraction(1)
    if av >= 1:
        while p * 10 <= av:
            p *= 10
            e10 += 1
    else:
        while p > av:
            p /= 10
            e10 -= 1
    if sp.sci:
        mant = bytes(c for c in out.split(b'E')[0].split(b'D')[0] if c in b'0123456789').lstrip(b'0')
        unit = Fraction(10) ** (e10 - min(max(len(mant), 1), prec) + 1)
    else:
        unit = Fraction(10) ** (-sp.decimals)
        if av < unit:
            return 'value-below-last-decimal-place'
        unit = max(unit, Fraction(10) ** (e10 - prec + 1))
    if Fraction(10) ** (e10 + 1) - av <= unit / 2 + ulp:
        return 'rounds-up-to-power-of-ten'
    return 'other-%s' % vclass(fr).lstrip('-')


def vkey(sp, problem, fr, ulp, out, prec):
    prefix = ('star' if sp.star else '') + ('dollar' if sp.dollar else '') or 'plain'
    return 'format/%s/%s/%s/%s' % ('sci' if sp.sci else 'fix', prefix, problem, input_class(sp, fr, ulp, out, prec))


def shape(sp):
    return '%s%s%s%s%s%s%s' % ('+' if sp.lead_plus else '', '*' if sp.star else '', '$' if sp.dollar else '',
                               ',' if sp.comma else '#', '.' if sp.dot else '', '^' if sp.sci else '',
                               sp.trail or '')


# ---------------------------------------------------------------------------

def make_field(part, spec_text, case):
    """NumberField for the spec, or None (violation recorded) if the real parser reads the field differently."""
    fs = codestream.CodeStream(spec_text.encode('ascii'))
    try:
        nf = F.NumberField(fs)
    except ValueError:
        part.violation('field-parse/rejected/%s' % shape(U.parse_spec(spec_text)),
                       'NumberField does not accept the well-formed field %r' % spec_text, case)
        return None
    rest = fs.peek()
    if rest != b'':
        part.violation('field-parse/partly-consumed/%s' % shape(U.parse_spec(spec_text)),
                       'NumberField reads only %r of the field %r' % (nf._tokens, spec_text), case)
        return None
    return nf


def check_number(part, sp, nf, label, v, exact, leg):
    fr, ulp, prec = exact
    case = {'spec': sp.text, 'value': label}
    part.n += 1
    try:
        out = bytes(nf.format(v))
    except BASICError as e:
        if U.digit_positions(sp) > 24 and e.err == error.IFC:
            part.outcome('ifc')
            part.classes.add('%s:>24:ifc' % shape(sp))
            return
        part.violation('format/%s/basic-error-%d/%s' % (shape(sp), e.err, vclass(fr)),
                       'PRINT USING "%s"; %s raises error %d' % (sp.text, label, e.err), case)
        return
    except Exception as e:
        if not from_pcbasic(e):
            raise
        part.violation('format/%s/host-exception/%s' % (shape(sp), type(e).__name__),
                       'PRINT USING "%s"; %s: %r' % (sp.text, label, e), case)
        return
    probs = U.analyse_number(sp, out, fr, ulp, prec)
    oc = 'percent' if out.startswith(b'%') else 'fits'
    part.outcome(oc)
    part.classes.add('%s:%s:%s' % (shape(sp).rstrip('+-') or '+', vclass(fr).lstrip('-'), oc))
    for key, msg in probs:
        part.violation(vkey(sp, key, fr, ulp, out, prec),
                       'PRINT USING "%s"; %s (= %s) -> %s' % (sp.text, label, U._dec(fr), msg), case)


_VALCACHE = {}


def _values():
    if 'v' not in _VALCACHE:
        vals = num.make_values()
        vs = build_values(vals)
        _VALCACHE['v'] = [(label, v, exact_of(v)) for label, v in vs]
        _VALCACHE['vals'] = vals
    return _VALCACHE['v']


def work_number(shard):
    specs = shard
    part = Partial()
    values = _values()
    for text in specs:
        sp = U.parse_spec(text)
        if sp is None:
            raise CheckError('reference rejects its own field %r' % text)
        nf = make_field(part, text, {'spec': text, 'value': None})
        if nf is None:
            continue
        for label, v, exact in values:
            check_number(part, sp, nf, label, v, exact, 'number')
    part.traces = part.n
    part.sample({'specs': specs[:3]})
    return part


def wide_specs():
    out = []
    for n in (23, 24, 25):
        out.append('#' * n)
        out.append('#' * (n - 12) + '.' + '#' * 12)
        out.append('#' * (n - 2) + '.' + '##')
        out.append('.' + '#' * n)
        out.append('**$' + '#' * (n - 2))
        out.append('+' + '#' * (n - 4) + '.####')
        out.append('#' * (n - 8) + '.' + '#' * 8 + '^^^^')
        out.append('#,###,###,###,###,###,###'[:n] if n <= 25 else '')
        out.append('#' * (n - 3) + ',.###-')
    return [s for s in out if s and U.parse_spec(s) is not None]


# ---------------------------------------------------------------------------
# string fields

def string_cases():
    fields = [b'!', b'&'] + [b'\\' + b' ' * k + b'\\' for k in range(0, 7)]
    for f in fields:
        w = len(f)
        lens = sorted(set([0, 1, 2, 3, w - 1, w, w + 1, 254, 255]))
        for n in lens:
            if n < 0:
                continue
            for kind in (0, 1):
                s = (b'abcdefghijklmnopqrstuvwxyz' * 10)[:n] if kind == 0 else bytes(0x21 + (i * 7) % 0x5e for i in range(n))
                yield f, s


def work_string(shard):
    part = Partial()
    from mc import harness as H
    vals = None
    s = H.new_session(horizon=100)
    try:
        for f, st in shard:
            case = {'field': f, 'string': st}
            want = U.string_field(f, st)
            # direct
            fs = codestream.CodeStream(f)
            try:
                sf = F.StringField(fs)
            except ValueError:
                part.violation('string-field/rejected', 'StringField does not accept %r' % f, case)
                continue
            if fs.peek() != b'':
                part.violation('string-field/partly-consumed', 'StringField reads %r of %r' % (sf._string_field, f), case)
                continue
            s.set_variable('S$', st)
            s.set_variable('F$', f)
            # through PRINT USING into the captured stream; "|" behind the field is a literal
            r = H.run(s, b'LOCATE 1,1:PRINT USING F$+"|";S$')
            part.n += 1
            part.traces += 1
            kind = {b'!': 'bang', b'&': 'amp'}.get(f, 'backslash')
            rel = 'empty' if not st else ('short' if len(st) < len(f) else ('fit' if len(st) == len(f) else 'long'))
            part.classes.add('str:%s:%s' % (kind, rel))
            if r.exc is not None:
                part.violation('string-field/%s/host-exception/%s' % (kind, H.exc_key(r.exc)), repr(r.exc), case)
                continue
            got = r.out
            if r.err is not None or got != want + b'|\r\n':
                part.violation('string-field/%s/wrong-output/%s' % (kind, rel),
                               'PRINT USING %r; string of length %d -> err %r %r, reference %r' % (
                                   f, len(st), r.err, got[:40], (want + b'|')[:40]), case)
            part.outcome(rel)
    finally:
        s.close()
    part.sample({'string_cases': len(shard)})
    return part


# ---------------------------------------------------------------------------
# statements: seam binding and cycling

STMT_SPECS = ['###', '##.##', '+##.#', '##.##-', '##.##+', '**##.#', '$$##.##', '**$#,###.##', '#,###', '.###',
              '##.##^^^^', '+.##^^^^', '#', '###.', '####,.##']
STMT_VALUES = ['0', '1', '-1', '9.995', '-9.995', '.5', '1234.567', '-1234.567', '99999', '1E-3', '12', '1.5#', '32767']


def cycle_cases():
    """Format strings as lists of (token, kind), kind in lit / num / str; 3 values cycle through them."""
    L, Nn, St = 'lit', 'num', 'str'
    fmts = [
        [('##', Nn), (' ', L), ('#.#', Nn)],
        [('a', L), ('##', Nn), ('b', L), ('&', St), ('c', L)],
        [('!', St), ('##', Nn)],
        [('_#', L), ('#', Nn), ('_!', L)],
        [('x', L), ('\\ \\', St), ('=', L), ('+##', Nn)],
        [('##', Nn), (':', L), ('##', Nn)],
        [('###.##', Nn)],
        [('(', L), ('&', St), (')', L)],
    ]
    nums = ['1', '-2', '12.5']
    strs = ['hello', 'Q', '']
    for fmt in fmts:
        yield fmt, nums, strs


def cycle_expected(fmt, nums, strs, vals, total=3):
    """Reference: values consume the fields in order, wrapping around; literal text in front of a field is
    printed when that field is used; literal text behind the last used field is printed up to the next field."""
    exprs = []
    expected = b''
    pending = b''
    pos = produced = ni = si = 0
    n = len(fmt)
    while produced < total:
        tok, kind = fmt[pos % n]
        if kind == 'lit':
            pending += (tok[1:] if tok.startswith('_') else tok).encode('ascii')
        elif kind == 'str':
            sv = strs[si % len(strs)]
            si += 1
            exprs.append('"%s"' % sv)
            expected += pending + U.string_field(tok.encode('ascii'), sv.encode('ascii'))
            pending = b''
            produced += 1
        else:
            nv = nums[ni % len(nums)]
            ni += 1
            exprs.append(nv)
            nf = F.NumberField(codestream.CodeStream(tok.encode('ascii')))
            expected += pending + bytes(nf.format(vals.from_repr(nv.encode('ascii'), False)))
            pending = b''
            produced += 1
        pos += 1
    trailing = b''
    while pos % n != 0 and fmt[pos % n][1] == 'lit':
        tok = fmt[pos % n][0]
        trailing += (tok[1:] if tok.startswith('_') else tok).encode('ascii')
        pos += 1
    return exprs, expected, trailing


def work_stmt(shard):
    from mc import harness as H
    kind, items = shard
    part = Partial()
    vals = num.make_values()
    s = H.new_session(horizon=100)
    try:
        if kind == 'bind':
            for spec_text in items:
                sp = U.parse_spec(spec_text)
                nf = make_field(part, spec_text, {'spec': spec_text, 'value': None})
                if nf is None:
                    continue
                for vt in STMT_VALUES:
                    v = vals.from_repr(vt.encode('ascii'), False)
                    case = {'kind': 'bind', 'spec': spec_text, 'value': vt}
                    direct = bytes(nf.format(v))
                    r = H.run(s, b'LOCATE 1,1:PRINT USING "' + spec_text.encode('ascii') + b'";' + vt.encode('ascii'))
                    part.n += 1
                    part.traces += 1
                    if r.exc is not None:
                        part.violation('stmt/host-exception/%s' % H.exc_key(r.exc), repr(r.exc), case)
                        continue
                    if r.err is not None or r.out != direct + b'\r\n':
                        part.violation('stmt/seam-mismatch/%s' % shape(sp),
                                       'PRINT USING "%s";%s prints %r (err %r), NumberField gives %r' % (
                                           spec_text, vt, r.out, r.err, direct), case)
                        continue
                    # the statement on the statement-level output as well
                    for key, msg in U.analyse_number(sp, r.out[:-2], *exact_of(v)):
                        part.violation(vkey(sp, key, exact_of(v)[0], exact_of(v)[1], r.out[:-2], exact_of(v)[2]),
                                       'PRINT USING "%s";%s -> %s' % (spec_text, vt, msg), case)
                    part.classes.add('stmt:bind:%s' % shape(sp))
                # type mismatch: a string into a numeric field, a number into a string field
                r = H.run(s, b'LOCATE 1,1:PRINT USING "' + spec_text.encode('ascii') + b'";"x"')
                part.n += 1
                if r.exc is not None or r.err != error.TYPE_MISMATCH:
                    part.violation('stmt/string-into-numeric-field', 'PRINT USING "%s";"x": err %r exc %r' % (
                        spec_text, r.err, r.exc), {'kind': 'bind', 'spec': spec_text, 'value': '"x"'})
        else:
            for fmt, nums, strs in items:
                nfields = sum(1 for t, k in fmt if k != 'lit')
                fmt_text = ''.join(t for t, k in fmt)
                exprs, expected, trailing = cycle_expected(fmt, nums, strs, vals)
                stmt = 'PRINT USING "%s";%s' % (fmt_text, ';'.join(exprs))
                r = H.run(s, b'LOCATE 1,1:' + stmt.encode('ascii'))
                case = {'kind': 'cycle', 'fmt': fmt_text, 'stmt': stmt}
                part.n += 1
                part.traces += 1
                part.classes.add('stmt:cycle:%d-fields' % nfields)
                if r.exc is not None:
                    part.violation('cycle/host-exception/%s' % H.exc_key(r.exc), '%s: %r' % (stmt, r.exc), case)
                    continue
                ok = r.err is None and r.out in (expected + trailing + b'\r\n', expected + b'\r\n')
                if not ok:
                    part.violation('cycle/wrong-output/%d-fields' % nfields,
                                   '%s prints %r (err %r), reference %r' % (stmt, r.out, r.err, expected + trailing), case)
                # trailing ; suppresses the newline
                r = H.run(s, b'LOCATE 1,1:' + stmt.encode('ascii') + b';')
                part.n += 1
                if r.exc is not None or r.err is not None or r.out not in (expected + trailing, expected):
                    part.violation('cycle/trailing-semicolon', '%s; prints %r (err %r)' % (stmt, r.out, r.err), case)
            # no field at all: Illegal function call
            r = H.run(s, b'LOCATE 1,1:PRINT USING "abc";1')
            part.n += 1
            if r.exc is not None or r.err != error.IFC:
                part.violation('cycle/no-field-accepted', 'PRINT USING "abc";1: err %r exc %r out %r' % (r.err, r.exc, r.out),
                               {'kind': 'cycle', 'fmt': 'abc', 'stmt': 'PRINT USING "abc";1'})
    finally:
        s.close()
    part.sample({'kind': kind, 'n': len(items)})
    return part


# ---------------------------------------------------------------------------

def legs(ctx):
    if ctx.quick:
        specs = U.all_specs(6, 5, 4)
        b = 'at most 6 digit positions (<=5 before the point incl. prefix positions, <=4 decimals)'
    else:
        specs = U.all_specs(12, 10, 9)
        b = 'at most 12 digit positions (<=10 before the point, <=9 decimals)'
    vals = num.make_values()
    nvalues = len(build_values(vals))
    out = []
    out.append(Leg('number', list(chunked(specs, max(10, len(specs) // 200))), work_number, exhaustive=True,
                   bound='all %d well-formed numeric fields with %s x %d values of all three types' % (len(specs), b, nvalues)))
    ws = wide_specs()
    out.append(Leg('wide', list(chunked(ws, 2)), work_number, exhaustive=True,
                   bound='%d boundary fields with 23/24/25 digit positions x %d values' % (len(ws), nvalues)))
    sc = list(string_cases())
    out.append(Leg('string', list(chunked(sc, 20)), work_string, exhaustive=True,
                   bound='fields ! & and \\..\\ of width 2..8 x strings of length 0,1,2,3,w-1,w,w+1,254,255 (2 contents each) '
                         'through PRINT USING: %d cases' % len(sc)))
    shards = [('bind', c) for c in chunked(STMT_SPECS, 3)] + [('cycle', [c]) for c in cycle_cases()]
    out.append(Leg('stmt', shards, work_stmt, exhaustive=True,
                   bound='%d fields x %d literal values through PRINT USING (seam binding); %d cycling format strings x 3 values' % (
                       len(STMT_SPECS), len(STMT_VALUES), len(list(cycle_cases())))))
    import gc
    gc.collect()
    gc.freeze()
    return out


def replay(ctx, leg, case):
    part = Partial()
    if leg in ('number', 'wide'):
        sp = U.parse_spec(case['spec'])
        nf = make_field(part, case['spec'], case)
        if nf is None:
            return part
        for label, v, exact in _values():
            if case.get('value') in (None, label):
                check_number(part, sp, nf, label, v, exact, leg)
        return part
    if leg == 'string':
        return work_string([(case['field'], case['string'])])
    if leg == 'stmt':
        if case['kind'] == 'bind':
            return work_stmt(('bind', [case['spec']]))
        for c in cycle_cases():
            if ''.join(t for t, k in c[0]) == case['fmt']:
                return work_stmt(('cycle', [c]))
        return work_stmt(('cycle', []))
    raise CheckError('unknown leg %r' % leg)
