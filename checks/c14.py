"""
C14 - RENUM renumbers lines and every reference to them consistently.

E1 over a bounded program grammar.  A program has k lines (fixed line-number sets);
every line prints its own letter and carries one statement of a reference alphabet
covering every reference kind (GOTO, GOSUB, RETURN n, THEN/ELSE n, IF..GOTO, ON..GOTO,
ON..GOSUB, RESTORE, RUN, RESUME, ERL=, ON ERROR GOTO n / 0, ON KEY / ON TIMER GOSUB) with
targets ranging over all lines and over missing numbers.  Enumerated exhaustively:
all programs with <= r non-filler lines (r = 1 full alphabet, r = 2 core alphabet,
r = 3 trap alphabet) x a fixed set of RENUM argument triples (legal, boundary, illegal).

For every (program, arguments):
  session A: enter; RUN; continuations; RUN                       (the original)
  session B: enter; RUN; RENUM args; LIST; continuations'; RUN    (continuations' = mapped)
oracle  : LIST(B) == pretty-print(reference renumbering of the AST); one
          'Undefined line x in y' per missing reference; outputs of B == outputs of A with
          every printed line number mapped; no host exception.
Continuations re-enter the stopped program without RUN (direct GOTO / ERROR 5, F1 key
injected at a fixed poll), so an error or event trap that was active when RENUM ran must
have followed its line.  The 'inprog' leg executes RENUM from inside the program.
"""
import re

from mc.core import Leg, Partial, CheckError, chunked
from mc import harness as H
from mc import progstore as R
from models.renummodel import Ref, Opaque, listing, line_text, plan, renumber, is_opaque_line

PROPERTY = 'C14'
ENGINE = 'E1 domain (bounded program grammar)'
LEVEL = 'model_checking'
LEVEL_TEXT = (
    'Bounded exhaustive enumeration: every program of the grammar (3-5 lines over fixed line-number '
    'sets incl. line 0 and numbers that collide with other numerals, each line one statement of a '
    '24-statement reference alphabet with every existing/missing target) having at most 1 (full '
    'alphabet), 2 (core alphabet) or 3 (trap alphabet) non-filler lines, times 11 RENUM argument '
    'triples, is renumbered on the real Session and compared with a reference renumbering of the AST, '
    'including behaviour before/after and trap following via direct-mode re-entry.')
LEVEL_NOTE = (
    'Trusted: the AST renumbering model (40 lines), the claim that the generated text is in canonical '
    'listing form (asserted for every program by LIST before RENUM), and digit-run mapping of outputs '
    '(programs print letters only, so every digit run in an output is a line number).')
TECHNIQUE = ('bounded exhaustive enumeration of programs x RENUM arguments on the real Session.execute '
             'seam against an AST renumbering model and an original-vs-renumbered behaviour comparison')
RULE = ('programs = all placements of <= r reference statements (alphabet x targets) on the lines of a '
        'fixed line-number set, other lines PRINT fillers; a case class is (statement kinds, RENUM '
        'argument class, outcome renumbered/rejected, target below/in range/missing); everything '
        'except filler-only programs is non-trivial')
ASSUMPTIONS = [
    'internal seam (read-only): Interpreter.gosub_stack (to skip continuation comparison when the original '
    'stopped inside a GOSUB: RENUM clears the stacks, which the statement does not forbid), '
    'Interpreter.on_error and BasicEvents.all (only to label a host exception by the active trap), '
    'Interpreter.error_num / error_pos (to recognise a rejected RENUM whose error was taken by the '
    'program\'s own ON ERROR trap instead of being printed)',
    'which RENUM arguments are accepted is not prescribed by the statement: a RENUM answered with a BASIC '
    'error is counted as rejected and nothing more is required of it',
    'the line reported in "Undefined line x in y" may be the old or the new number of the holding line',
    'the arguments of a RENUM statement stored inside a program are tokenised as line references by '
    'GW-BASIC; the oracle does not constrain the listing of those arguments nor messages about them',
    'ON ERROR GOTO 0, ON KEY(n)/TIMER GOSUB 0, RESUME 0, RETURN 0, ERL=0: 0 is not a line reference there; only '
    'ON ERROR GOTO 0 is generated (it must stay 0 even when line 0 is renumbered), the others are not',
    'behaviour is not compared when a kept reference to a missing line coincides with a new line number '
    '(the statement keeps such references, so the renumbered program legitimately behaves differently)',
    'a printed 0 may stay 0 or follow line 0 (ERL prints 0 when no error occurred)',
    'line breaks in program output are not compared (wrapping depends on the width of printed line numbers)',
    'loops are cut by Ctrl+Break at poll %d in both sessions (same statement count in both)',
]

LIMIT = 40
ASSUMPTIONS[-1] = ASSUMPTIONS[-1] % LIMIT

NS_SETS = {
    'n4': (10, 20, 30, 40),
    'z4': (0, 10, 20, 30),
    'n3': (10, 20, 30),
    'n5': (10, 20, 30, 40, 100),
    'd4': (1, 5, 30, 40),
    # irregular spacing: with RENUM 20,,20 the outer lines move up while a middle line moves down
    # onto the old number of another line (10->20, 60->40, 70->60, 75->80)
    'i4': (10, 60, 70, 75),
    # the lines of n4 written with two blanks wherever the other sets have one (ON ERROR  GOTO  0, IF A  THEN  10  ELSE  20)
    'n4w': (10, 20, 30, 40),
}
WIDE = ('n4w',)

ARGS = {
    'default': (None, None, None),
    'new': (100, None, None),
    'range': (100, 30, None),
    'tight': (35, 30, 2),
    'far7': (1000, 30, 7),
    'inc5': (None, None, 5),
    'gap': (50, 25, None),
    'high': (65500, 20, 10),
    'clash': (20, 30, None),
    'overflow': (65500, 10, 10),
    'step0': (100, 30, 0),
    'by20': (20, None, 20),
    # new numbers starting at 0: the first renumbered line becomes line 0 (a falsy number)
    'tozero': (0, None, None),
    'tozero5': (0, None, 5),
    # the same after a RENUM that was refused part-way (new numbers beyond 65529): the refused one changed nothing
    'refused+range': (100, 30, None),
    'refused+far7': (1000, 30, 7),
}
REFUSED_FIRST = b'RENUM 65500,,10'
ARGS_ALL = list(ARGS)
ARGS_CORE = ['default', 'range', 'far7', 'gap', 'tight', 'high', 'clash', 'inc5', 'tozero', 'refused+range']
ARGS_TRAP = ['default', 'range', 'far7', 'tozero']
ARGS_INPROG = ['range', 'far7', 'default', 'tight']

F1 = (u'\0\x3b', 0x3b)
KEYPOLL = 3

# kind -> number of targets
KINDS = {
    'fill': 0, 'goto': 1, 'gosub': 1, 'return': 0, 'return_n': 1, 'if_else': 2, 'if_then': 1,
    'if_goto': 2, 'on_goto': 2, 'on_gosub': 2, 'restore': 1, 'data': 0, 'onerr': 1, 'onerr0': 0,
    'error': 0, 'resume_n': 1, 'resume_next': 0, 'erl_eq': 1, 'run_n': 1, 'onkey': 1, 'onkey_off': 1,
    'ontimer': 1, 'end': 0, 'renum': 0,
}
FULL = [k for k in KINDS if k not in ('fill', 'renum')]
CORE = ['goto', 'gosub', 'return', 'return_n', 'if_else', 'on_gosub', 'restore', 'data', 'onerr',
        'onerr0', 'error', 'resume_n', 'resume_next', 'erl_eq', 'onkey', 'onkey_off', 'end']
CORE_QUICK = ['goto', 'gosub', 'return', 'onerr', 'error', 'resume_next', 'onkey', 'onkey_off', 'end']
TRAP = ['onerr', 'error', 'resume_n', 'resume_next', 'gosub', 'return', 'onkey', 'onkey_off', 'end']


def stmt_parts(kind, idx, targets, renum_args=None):
    x = b'abcdefgh'[idx:idx + 1]
    X = x.upper()
    p = b'PRINT "' + x + b'";'
    t = [Ref(n) for n in targets]
    if kind == 'fill':
        return [p]
    if kind == 'goto':
        return [p + b':GOTO ', t[0]]
    if kind == 'gosub':
        return [p + b':GOSUB ', t[0], b':PRINT "' + X + b'";']
    if kind == 'return':
        return [p + b':RETURN']
    if kind == 'return_n':
        return [p + b':RETURN ', t[0]]
    if kind == 'if_else':
        return [p + b':IF A THEN ', t[0], b' ELSE ', t[1]]
    if kind == 'if_then':
        return [p + b':IF A=0 THEN ', t[0]]
    if kind == 'if_goto':
        return [p + b':IF A THEN GOTO ', t[0], b' ELSE GOTO ', t[1]]
    if kind == 'on_goto':
        return [p + b':A=A+1:ON A GOTO ', t[0], b',', t[1]]
    if kind == 'on_gosub':
        return [p + b':A=A+1:ON A GOSUB ', t[0], b',', t[1]]
    if kind == 'restore':
        return [p + b':RESTORE ', t[0], b':READ A$:PRINT A$;']
    if kind == 'data':
        return [b'DATA ' + x]
    if kind == 'onerr':
        return [p + b':ON ERROR GOTO ', t[0]]
    if kind == 'onerr0':
        return [p + b':ON ERROR GOTO 0']
    if kind == 'error':
        return [p + b':ERROR 5']
    if kind == 'resume_n':
        return [b'PRINT "' + x + b'";ERL;:RESUME ', t[0]]
    if kind == 'resume_next':
        return [p + b':RESUME NEXT']
    if kind == 'erl_eq':
        return [p + b':IF ERL=', t[0], b' THEN PRINT "' + X + b'";']
    if kind == 'run_n':
        return [p + b':RUN ', t[0]]
    if kind == 'onkey':
        return [p + b':ON KEY(1) GOSUB ', t[0], b':KEY(1) ON']
    if kind == 'onkey_off':
        # a trap that is defined but switched off when RENUM runs; a continuation switches it on
        return [p + b':ON KEY(1) GOSUB ', t[0], b':KEY(1) ON:KEY(1) OFF']
    if kind == 'ontimer':
        return [p + b':ON TIMER(9) GOSUB ', t[0]]
    if kind == 'end':
        return [p + b':END']
    if kind == 'renum':
        return [p + b':RENUM ', Opaque(renum_args)]
    raise ValueError(kind)


def args_text(args):
    a = [b'' if v is None else b'%d' % v for v in args]
    while a and a[-1] == b'':
        a.pop()
    return b','.join(a)


def missing_targets(ns, with_zero):
    mid = (ns[1] + ns[2]) // 2
    out = [mid]
    if with_zero and 0 not in ns:
        out.append(0)
    return out


# after these keywords the number 0 is not a line reference (ON ERROR GOTO 0 / ON KEY(n) GOSUB 0
# switch the trap off, RESUME 0 retries, RETURN 0 is unspecified): target 0 is not generated
ZERO_SPECIAL = ('onerr', 'onkey', 'onkey_off', 'ontimer', 'resume_n', 'return_n', 'erl_eq')


def statements(ns, kinds, with_zero, lines_only=False):
    """All (kind, targets) of the given kinds over the target alphabet of ns."""
    miss = [] if lines_only else missing_targets(ns, with_zero)
    m = miss[0] if miss else None
    out = []
    for kind in kinds:
        nt = KINDS[kind]
        if nt == 0:
            out.append((kind, ()))
        elif nt == 1:
            for t in list(ns) + miss:
                if t == 0 and kind in ZERO_SPECIAL:
                    continue
                out.append((kind, (t,)))
        else:
            for i, t in enumerate(ns):
                out.append((kind, (t, ns[(i + 1) % len(ns)])))
                if m is not None:
                    out.append((kind, (t, m)))
                    out.append((kind, (m, t)))
    return out


def build(nsid, spec, variant='B'):
    """spec: tuple of (position, kind, targets[, renum args name]).  variant 'A' replaces an
    in-program RENUM by END (the original to compare with)."""
    ns = NS_SETS[nsid]
    by_pos = dict((s[0], s) for s in spec)
    prog = []
    for i, num in enumerate(ns):
        if i in by_pos:
            s = by_pos[i]
            kind, targets = s[1], s[2]
            if kind == 'renum':
                if variant == 'A':
                    parts = stmt_parts('end', i, ())
                else:
                    parts = stmt_parts('renum', i, (), args_text(ARGS[s[3]]))
            else:
                parts = stmt_parts(kind, i, targets)
        else:
            parts = stmt_parts('fill', i, ())
        if nsid in WIDE:
            parts = [q.replace(b' ', b'  ') if isinstance(q, bytes) else q for q in parts]
        prog.append((num, parts))
    return prog


# ---------------------------------------------------------------------------
# enumeration of programs

def enum_single(nsid):
    ns = NS_SETS[nsid]
    sts = statements(ns, FULL, True)
    for pos in range(len(ns)):
        for kind, targets in sts:
            yield ((pos, kind, targets),)


def enum_pairs(nsid, kinds):
    ns = NS_SETS[nsid]
    sts = statements(ns, kinds, False)
    k = len(ns)
    for i in range(k):
        for j in range(i + 1, k):
            for a in sts:
                for b in sts:
                    yield ((i, a[0], a[1]), (j, b[0], b[1]))


def enum_triples(nsid, kinds):
    ns = NS_SETS[nsid]
    sts = statements(ns, kinds, False, lines_only=True)
    k = len(ns)
    for i in range(k):
        for j in range(i + 1, k):
            for l in range(j + 1, k):
                for a in sts:
                    for b in sts:
                        for c in sts:
                            yield ((i, a[0], a[1]), (j, b[0], b[1]), (l, c[0], c[1]))


def enum_inprog(nsid, kinds):
    ns = NS_SETS[nsid]
    sts = statements(ns, kinds, False)
    k = len(ns)
    for i in range(k):
        for j in range(k):
            if i == j:
                continue
            for argname in ARGS_INPROG:
                for a in sts:
                    # position i holds RENUM, position j the other statement
                    yield tuple(sorted(((i, 'renum', (), argname), (j, a[0], a[1]))))


# ---------------------------------------------------------------------------
# running

_UNDEF_RE = re.compile(br'Undefined line (\d+) in (\d+)\r\n')


def _norm(out):
    """Line breaks are not compared: where the console wraps or starts a fresh line depends on
    the cursor column, i.e. on the width of the line numbers printed before."""
    return out.replace(b'\r', b'').replace(b'\n', b'')


_SPLIT_RE = re.compile(br'(\d+)')


def same_modulo_numbers(got, orig, mapping):
    """got == orig with every printed line number mapped.  A printed 0 may stay 0 (ERL is 0 when
    no error has happened) or be the image of line 0."""
    a = _SPLIT_RE.split(_norm(got))
    b = _SPLIT_RE.split(_norm(orig))
    if len(a) != len(b):
        return False
    for i, (x, y) in enumerate(zip(a, b)):
        if i % 2 == 0:
            if x != y:
                return False
        else:
            n = int(y)
            ok = int(x) == mapping.get(n, n) or (n == 0 and int(x) == 0)
            if not ok:
                return False
    return True


class Abort(Exception):
    """A violation was recorded for this case; stop working on it."""


def _enter(s, program, part, case):
    # the lines are typed in ascending order, then the second one is typed again (an edited program: the order in
    # which lines were entered is not the order of their numbers)
    order = list(program) + (list(program[1:2]) if len(program) > 2 else [])
    for num, parts in order:
        text = line_text(num, parts)
        if num == 0:
            text = text.replace(b'0 ', b'0', 1)
        r = R.run(s, text)
        if r.exc is not None:
            part.violation('enter/host-exception/' + H.exc_key(r.exc),
                           'entering %r raised %r' % (text, r.exc), case)
            raise Abort()
        if r.out:
            raise CheckError('line %r not accepted: %r' % (text, r.out))


def _interp(s):
    try:
        it = s._impl.interpreter
        it.gosub_stack, it.on_error
        s._impl.basic_events.all
    except AttributeError as e:
        raise CheckError('internal seam changed: %s' % e)
    return it


def continuations(program, spec):
    """Direct-mode re-entries (without RUN) that exercise traps left active by the run."""
    kinds = dict((s[1], s[0]) for s in spec)
    conts = []
    nums = [n for n, _ in program]
    if 'error' in kinds:
        conts.append(('goto', nums[kinds['error']], None))
    if 'onerr' in kinds:
        conts.append(('error',))
    if 'onkey' in kinds:
        conts.append(('goto', nums[0], KEYPOLL))
    if 'onkey_off' in kinds:
        # enter below the defining line where there is one, so that the definition is not simply repeated
        k = kinds['onkey_off']
        conts.append(('goto-keyon', nums[k + 1 if k + 1 < len(nums) else 0], KEYPOLL))
    if 'renum' in kinds and kinds['renum'] + 1 < len(nums):
        conts.append(('goto', nums[kinds['renum'] + 1], None))
    return conts


def _do_cont(s, cont, mapping):
    if cont[0] == 'error':
        return R.run(s, b'ERROR 5')
    _, line, keypoll = cont
    if keypoll is not None:
        s.verif_inputs.schedule[keypoll] = [H.key_event(*F1)]
    try:
        return R.run(s, (b'KEY(1) ON:' if cont[0] == 'goto-keyon' else b'') + b'GOTO %d' % mapping.get(line, line))
    finally:
        if keypoll is not None:
            del s.verif_inputs.schedule[keypoll]


def reference_run(program, conts, part, case, second_run=True, after_first=None):
    """Session A.  -> dict(outs=[bytes...], stack_empty=bool).
    after_first: a direct statement executed after the first RUN (the refused RENUM of the refused+ variants: whatever
    it leaves behind - ERR/ERL, a trap that took the refusal - is then the same in both sessions)."""
    s = R.bounded_session(LIMIT)
    it = _interp(s)
    _enter(s, program, part, case)
    r = R.run(s, b'LIST')
    got = R.lines_of(r.out)
    if got != listing(program):
        raise CheckError('generated program is not in canonical listing form: typed %r, LIST %r'
                         % (listing(program), got))
    outs = []
    seq = [('run',)] + list(conts) + ([('run',)] if second_run else [])
    stack_empty = True
    for i, c in enumerate(seq):
        r = R.run(s, b'RUN') if c[0] == 'run' else _do_cont(s, c, {})
        if r.exc is not None:
            part.violation('original/host-exception/' + H.exc_key(r.exc),
                           'original program %r: %r raised %r' % (listing(program), c, r.exc), case)
            raise Abort()
        if r.exit:
            raise CheckError('original program exited the session: %r' % (listing(program),))
        outs.append(r.out)
        if i == 0:
            stack_empty = not it.gosub_stack
            if after_first is not None:
                ra = R.run(s, after_first)
                if ra.exc is not None:
                    part.violation('original/host-exception/' + H.exc_key(ra.exc),
                                   'original program %r: %r raised %r' % (listing(program), after_first, ra.exc), case)
                    raise Abort()
                after = (ra.err, ra.out)
                stack_empty = not it.gosub_stack
    res = {'outs': outs, 'stack_empty': stack_empty}
    if after_first is not None:
        res['after_first'] = after
    return res


def trap_label(s, old):
    """Which active trap lies below the renumbered range (labels a host exception)."""
    it = _interp(s)
    old = 0 if old is None else old
    labels = []
    if it.on_error:
        labels.append('error-trap-line-%s-range' % ('below' if it.on_error < old else 'in'))
    ev = sorted(set(h.gosub for h in s._impl.basic_events.all if h.gosub))
    if ev:
        labels.append('event-trap-line-%s-range' % ('below' if min(ev) < old else 'in'))
    return '+'.join(labels) or 'no-active-trap'


def check_messages(out, missing, mapping, skip_lines, part, key, what, case):
    found = [(int(a), int(b)) for a, b in _UNDEF_RE.findall(out)]
    found = [f for f in found if f[1] not in skip_lines]
    exp = sorted(missing)
    ok = len(found) == len(exp)
    if ok:
        rest = list(found)
        for ref, holder in exp:
            for cand in ((ref, holder), (ref, mapping.get(holder, holder))):
                if cand in rest:
                    rest.remove(cand)
                    break
            else:
                ok = False
        ok = ok and not rest
    if not ok:
        part.violation(key, '%s: reported %r, missing references (ref, holding line) are %r'
                       % (what, found, exp), case)
    return ok


def _cls_target(ns, spec, old):
    old = 0 if old is None else old
    out = set()
    for s in spec:
        for t in s[2]:
            out.add('missing' if t not in ns else ('below' if t < old else 'inrange'))
    return '+'.join(sorted(out)) or 'none'


def run_case(part, nsid, spec, argnames, second_run=True):
    """Mode (a): RENUM from direct mode after the program ran (traps still active)."""
    ns = NS_SETS[nsid]
    program = build(nsid, spec)
    conts = continuations(program, spec)
    kinds = '+'.join(s[1] for s in spec) or 'fill'
    base_case = {'mode': 'direct', 'ns': nsid, 'spec': [list(x) for x in spec]}
    try:
        ref = reference_run(program, conts, part, dict(base_case, args=None), second_run)
    except Abort:
        return
    part.traces += 1
    for argname in argnames:
        args = ARGS[argname]
        if args[0] == 0 and any(sp_[1] in ZERO_SPECIAL and ns[0] in sp_[2] for sp_ in spec):
            # the first line becomes line 0, and this program refers to it where 0 does not mean a line
            # (ON ERROR GOTO 0, ON KEY(n) GOSUB 0, RESUME 0, RETURN 0, ERL=0): its meaning would change
            continue
        case = dict(base_case, args=argname)
        part.n += 1
        part.traces += 1
        try:
            _run_b(part, ns, program, spec, conts, kinds, argname, args, ref, case, second_run)
        except Abort:
            pass


def _run_b(part, ns, program, spec, conts, kinds, argname, args, ref, case, second_run):
    s = R.bounded_session(LIMIT)
    _enter(s, program, part, case)
    r = R.run(s, b'RUN')
    if r.exc is not None or r.out != ref['outs'][0]:
        raise CheckError('first RUN differs between two sessions: %r vs %r' % (r, ref['outs'][0]))
    label = trap_label(s, args[1])
    cmd = (b'RENUM ' + args_text(args)).strip()
    it = _interp(s)
    try:
        err_before = (it.error_num, it.error_pos)
    except AttributeError as e:
        raise CheckError('internal seam changed: %s' % e)
    if argname.startswith('refused+'):
        rp = R.run(s, REFUSED_FIRST)
        if rp.exc is not None:
            part.violation('renum/host-exception/%s/%s' % (type(rp.exc).__name__, label), '%s raised %r' % (REFUSED_FIRST, rp.exc), case)
            raise Abort()
        if rp.err is None:
            # fewer than four lines: accepted - or the refusal was taken by the program's ON ERROR trap, whose handler
            # has run since: neither is what this variant is for
            part.outcome('first-renum-not-refused' if (it.error_num, it.error_pos) == err_before else 'first-renum-error-trapped')
            return
        err_before = (it.error_num, it.error_pos)
        # the reference for this variant is the original program with the same refused statement in its history
        # (the refusal sets ERR / ERL and may have gone through the program's error handler)
        if 'refused' not in ref:
            ref['refused'] = reference_run(program, conts, part, dict(case, args=None), second_run, after_first=REFUSED_FIRST)
        ref = ref['refused']
        if ref['after_first'] != (rp.err, rp.out):
            raise CheckError('%s differs between two sessions: %r vs %r' % (REFUSED_FIRST, ref['after_first'], (rp.err, rp.out)))
    r = R.run(s, cmd)
    text = b' / '.join(listing(program)).decode('latin-1')
    if r.exc is not None:
        part.violation('renum/host-exception/%s/%s' % (type(r.exc).__name__, label),
                       '%s after running [%s] raised %r (active traps: %s)'
                       % (cmd.decode(), text, r.exc, label), case)
        part.outcome('host-exception')
        raise Abort()
    tcls = _cls_target(ns, spec, args[1])
    if r.err is None and (it.error_num, it.error_pos) != err_before and it.error_pos == -1:
        # RENUM failed in direct mode and the program's active ON ERROR trap took the error
        part.outcome('rejected-error-trapped')
        part.classes.add('args:%s:rejected' % argname)
        return
    if r.err is not None:
        part.outcome('rejected-%s' % r.err)
        part.classes.add('args:%s:rejected' % argname)
        return
    part.outcome('renumbered')
    part.classes.add('args:%s:renumbered' % argname)
    part.classes.add(('stmt:%s:%s' % (kinds, tcls)) if len(spec) < 2
                     else ('multi:%s' % '+'.join(sorted(set(x[1] for x in spec)))))
    mapping = plan(program, *args)
    expected, missing = renumber(program, mapping)
    check_messages(r.out, missing, mapping, (), part,
                   'messages/%s' % kinds, '%s on [%s]' % (cmd.decode(), text), case)
    rl = R.run(s, b'LIST')
    if rl.exc is not None:
        part.violation('list/host-exception/' + H.exc_key(rl.exc), 'LIST after %s raised %r' % (cmd, rl.exc), case)
        raise Abort()
    got = R.lines_of(rl.out)
    exp = listing(expected)
    if got != exp:
        # name the first differing line's statement kind for a specific key
        bad = [i for i in range(min(len(got), len(exp))) if got[i] != exp[i]]
        which = 'line-count' if not bad else dict((x[0], x[1]) for x in spec).get(bad[0], 'fill')
        part.violation('list/%s/%s' % (which, 'numbers' if not bad else tcls),
                       '%s on [%s]: LIST shows %r, reference renumbering %r'
                       % (cmd.decode(), text, got, exp), case)
        raise Abort()
    # behaviour: continuations (trap following) and a fresh RUN
    newnums = set(n for n, _ in expected)
    if any(m in newnums for m, _holder in missing):
        # a kept reference to a missing line now names a line that exists: behaviour legitimately differs
        part.outcome('behaviour-not-compared(kept-missing-reference-now-exists)')
        return
    seq = list(conts) + ([('run',)] if second_run else [])
    for i, c in enumerate(seq):
        r = R.run(s, b'RUN') if c[0] == 'run' else _do_cont(s, c, mapping)
        ref_out = ref['outs'][1 + i]
        if r.exc is not None:
            part.violation('behaviour/host-exception/%s/%s' % (c[0], H.exc_key(r.exc)),
                           '%s on [%s], then %r raised %r' % (cmd.decode(), text, c, r.exc), case)
            raise Abort()
        if c[0] != 'run' and not ref['stack_empty']:
            part.outcome('continuation-not-compared(gosub-stack)')
            continue
        want = _norm(R.map_numbers(ref_out, mapping))
        if not same_modulo_numbers(r.out, ref_out, mapping):
            kindkey = 'run' if c[0] == 'run' else ('trap-follow-%s' % (
                'event' if (len(c) > 2 and c[2] is not None) else 'error'))
            part.violation('behaviour/%s/%s' % (kindkey, kinds),
                           '%s on [%s], then %r: output %r, original (numbers mapped) %r'
                           % (cmd.decode(), text, c, r.out, want), case)
            raise Abort()
        part.outcome('behaviour-equal-' + c[0])


def run_inprog(part, nsid, spec):
    """Mode (b): RENUM executed from inside the program."""
    ns = NS_SETS[nsid]
    prog_a = build(nsid, spec, 'A')
    prog_b = build(nsid, spec, 'B')
    rpos = [s for s in spec if s[1] == 'renum'][0]
    argname = rpos[3]
    args = ARGS[argname]
    letter = b'abcdefgh'[rpos[0]:rpos[0] + 1]
    conts = continuations(prog_b, spec)
    kinds = '+'.join(s[1] for s in spec)
    case = {'mode': 'inprog', 'ns': nsid, 'spec': [list(x) for x in spec]}
    part.n += 1
    try:
        ref = reference_run(prog_a, conts, part, case, second_run=False)
    except Abort:
        return
    part.traces += 2
    s = R.bounded_session(LIMIT)
    try:
        _enter(s, prog_b, part, case)
    except Abort:
        return
    text = b' / '.join(listing(prog_b)).decode('latin-1')
    it = _interp(s)
    r = R.run(s, b'RUN')
    reached = ref['outs'][0].endswith(letter)
    if r.exc is not None:
        # label by the trap state at the time of the exception (RENUM does not change it before failing)
        label = trap_label(s, args[1])
        part.violation('renum/host-exception/%s/in-program/%s' % (type(r.exc).__name__, label),
                       'RUN of [%s] raised %r (active traps: %s)' % (text, r.exc, label), case)
        part.outcome('host-exception')
        return
    if not reached:
        part.outcome('inprog-renum-not-reached')
        part.classes.add('inprog|not-reached')
        if r.out != ref['outs'][0]:
            raise CheckError('RENUM line not reached but outputs differ: %r vs %r' % (r.out, ref['outs'][0]))
        return
    mapping = plan(prog_b, *args)
    expected, missing = renumber(prog_b, mapping)
    rnum_old = ns[rpos[0]]
    stripped = _norm(_UNDEF_RE.sub(b'', r.out))
    if r.err is not None:
        part.outcome('inprog-rejected-%s' % r.err)
        return
    part.outcome('inprog-renumbered')
    part.classes.add('inprog:%s' % kinds)
    if stripped != _norm(ref['outs'][0]):
        part.violation('inprog/output-before-renum/%s' % kinds,
                       'RUN of [%s] printed %r, the same program with END printed %r' % (text, r.out, ref['outs'][0]),
                       case)
        return
    missing = [m for m in missing if m[1] != rnum_old]
    check_messages(r.out, missing, mapping, (rnum_old, mapping.get(rnum_old, rnum_old)), part,
                   'inprog/messages/%s' % kinds, 'RUN of [%s]' % text, case)
    rl = R.run(s, b'LIST')
    if rl.exc is not None:
        part.violation('list/host-exception/' + H.exc_key(rl.exc), 'LIST raised %r' % (rl.exc,), case)
        return
    got = R.lines_of(rl.out)
    ok = len(got) == len(expected)
    if ok:
        for g, (num, parts) in zip(got, expected):
            if is_opaque_line(parts):
                head = []
                for p in parts:
                    if isinstance(p, Opaque):
                        break
                    head.append(p)
                ok = ok and g.startswith(line_text(num, head))
            else:
                ok = ok and g == line_text(num, parts)
    if not ok:
        part.violation('inprog/list/%s' % kinds,
                       'RUN of [%s]: LIST shows %r, reference renumbering %r' % (text, got, listing(expected)), case)
        return
    newnums = set(n for n, _ in expected)
    if any(m in newnums for m, _holder in missing):
        part.outcome('behaviour-not-compared(kept-missing-reference-now-exists)')
        return
    for i, c in enumerate(conts):
        r = _do_cont(s, c, mapping)
        if r.exc is not None:
            part.violation('inprog/behaviour/host-exception/' + H.exc_key(r.exc),
                           'after in-program RENUM of [%s], %r raised %r' % (text, c, r.exc), case)
            return
        if not ref['stack_empty']:
            part.outcome('continuation-not-compared(gosub-stack)')
            continue
        # the continuation may run into the RENUM line again (then B renumbers again and A ends);
        # compare up to that point only: both stop there silently
        want = _norm(R.map_numbers(ref['outs'][1 + i], mapping))
        got_out = _norm(_UNDEF_RE.sub(b'', r.out))
        if not same_modulo_numbers(got_out, ref['outs'][1 + i], mapping):
            part.violation('inprog/behaviour/trap-follow/%s' % kinds,
                           'after in-program RENUM of [%s], %r printed %r, original (mapped) %r'
                           % (text, c, r.out, want), case)
            return
        if want.endswith(letter):
            # the RENUM line was executed again: the program has been renumbered a second time
            part.outcome('inprog-renum-reentered')
            return
        part.outcome('behaviour-equal-inprog')


# ---------------------------------------------------------------------------
# workers


def work_direct(shard):
    part = Partial()
    nsid, argnames, specs, second_run = shard
    for spec in specs:
        run_case(part, nsid, tuple(tuple(x) for x in spec), argnames, second_run)
    if specs:
        part.sample({'mode': 'direct', 'ns': nsid, 'spec': [list(x) for x in specs[0]], 'args': argnames})
    return part


def work_inprog(shard):
    part = Partial()
    nsid, specs = shard
    for spec in specs:
        run_inprog(part, nsid, tuple(tuple(x) for x in spec))
    if specs:
        part.sample({'mode': 'inprog', 'ns': nsid, 'spec': [list(x) for x in specs[0]]})
    return part


def _shards(nsid, argnames, gen, size, second_run=True):
    return [(nsid, argnames, chunk, second_run) for chunk in chunked(gen, size)]


def legs(ctx):
    out = []
    if ctx.quick:
        single = []
        for nsid in ('n4', 'z4', 'd4', 'i4', 'n4w'):
            single += _shards(nsid, ARGS_ALL, enum_single(nsid), 12)
        out.append(Leg('single', single, work_direct, exhaustive=True,
                       bound='every program with 1 reference statement (22 kinds x all targets incl. missing/0) '
                             'on line sets n4,z4,d4,i4,n4w (n4 with doubled blanks) x %d RENUM argument triples' % len(ARGS_ALL) + ''))
        pairs = _shards('n4', ARGS_TRAP + ['gap'], enum_pairs('n4', CORE_QUICK), 40)
        out.append(Leg('pairs', pairs, work_direct, exhaustive=True,
                       bound='every program with 2 statements of the 8-kind quick core alphabet on lines '
                             '10,20,30,40 x 4 RENUM argument triples'))
        inprog = [('n4', c) for c in chunked(enum_inprog('n4', CORE_QUICK), 60)]
        out.append(Leg('inprog', inprog, work_inprog, exhaustive=True,
                       bound='RENUM inside the program at every position x 4 argument triples x 1 statement '
                             'of the quick core alphabet at every other position'))
        return out
    single = []
    for nsid in ('n4', 'z4', 'd4', 'n3', 'n5', 'i4', 'n4w'):
        single += _shards(nsid, ARGS_ALL, enum_single(nsid), 12)
    out.append(Leg('single', single, work_direct, exhaustive=True,
                   bound='every program with 1 reference statement (22 kinds x all targets incl. missing/0) '
                         'on line sets n4,z4,d4,n3,n5,i4,n4w (n4 with doubled blanks) x %d RENUM argument triples' % len(ARGS_ALL) + ''))
    pairs = _shards('n4', ARGS_CORE, enum_pairs('n4', CORE), 25)
    pairs += _shards('z4', ['default', 'range', 'inc5'], enum_pairs('z4', CORE_QUICK + ['onerr0']), 40)
    out.append(Leg('pairs', pairs, work_direct, exhaustive=True,
                   bound='every program with 2 statements of the 16-kind core alphabet on lines 10,20,30,40 '
                         'x 8 argument triples; + line set 0,10,20,30 with the 9-kind alphabet x 3 triples'))
    triples = _shards('n4', ARGS_TRAP, enum_triples('n4', TRAP), 40)
    out.append(Leg('triples', triples, work_direct, exhaustive=True,
                   bound='every program with 3 statements of the 8-kind trap alphabet (existing targets) on '
                         'lines 10,20,30,40 x 3 argument triples'))
    inprog = [('n4', c) for c in chunked(enum_inprog('n4', CORE), 60)]
    out.append(Leg('inprog', inprog, work_inprog, exhaustive=True,
                   bound='RENUM inside the program at every position x 4 argument triples x 1 statement '
                         'of the core alphabet at every other position'))
    return out


def replay(ctx, leg, case):
    part = Partial()
    spec = tuple(tuple(tuple(y) if isinstance(y, list) else y for y in x) for x in case['spec'])
    if case.get('mode') == 'inprog':
        run_inprog(part, case['ns'], spec)
    else:
        argnames = [case['args']] if case.get('args') else ARGS_ALL
        run_case(part, case['ns'], spec, argnames)
    return part
