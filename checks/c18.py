"""
C18 - expressions evaluate with GW-BASIC precedence, associativity and typing.

E1: all operator trees with <= n operator nodes over the 18 binary and 2 unary
operators of the statement, leaves of the four types, printed
  (a) with minimal parentheses under the stated precedence table,
  (b) fully parenthesised (one operator per pair),
  (c) with redundant parentheses (around leaves and the whole expression),
parsed and evaluated by the real ExpressionParser and compared with a bottom-up
evaluation of the tree using the same values.* operator functions (so that only
grouping and typing are tested; the operators themselves are C02-C06), plus an
independent typing oracle taken from the statement.
"""
from mc.core import Leg, Partial, CheckError, chunked
from mc import harness as H
from pcbasic.basic import values as V
from pcbasic.basic.values import numbers as N
from pcbasic.basic.values import strings as S
from pcbasic.basic.base import error

PROPERTY = 'C18'
ENGINE = 'E1 domain'
LEVEL = 'model_checking'
LEVEL_TEXT = (
    'Every operator tree with up to 3 (quick) / 4 (thorough) operator nodes over all 18 binary and 2 unary '
    'operators, with numeric leaves of rotating types (2 patterns; 1 at 4 nodes), and every tree with up to 2 '
    '(quick) / 3 (thorough, reduced relational/logical alphabet, default session) nodes under every assignment '
    'of the four types to its leaves, in a default session and in a double=True session, is '
    'printed with minimal, full and redundant parentheses, evaluated by the real expression parser and '
    'compared (class and bytes) with the bottom-up value of the tree; the result class is also checked '
    'against the typing rules of the statement; ill-typed trees and missing operands must raise '
    'Type mismatch / Missing operand.')
LEVEL_NOTE = ('Relative oracle: the values.* operator functions are trusted here (decided by C02-C06). '
              'The minimal-parentheses printer is validated against an independent precedence-climbing parser '
              'written from the statement.')
TECHNIQUE = ('bounded exhaustive enumeration of expression trees on ExpressionParser.parse_expression against '
             'tree evaluation with the same operator functions and a typing oracle from the statement')
RULE = ('all trees with <= n operator nodes x leaf type patterns; a case class is (root operator class, '
        'child operator class, side, outcome kind); trivial = single-operator trees')
ASSUMPTIONS = [
    'internal seam: Implementation.tokeniser.tokenise_line + parser.parse_expression (exactly what '
    'Session.evaluate does) to observe the class of the result; values.* operator functions for the tree value',
    'a prefix operator applies to the longest operand to its right made of operators of higher precedence '
    '(2^-3, 2*NOT 1+1 = 2*NOT(1+1)); this is the standard reading of a precedence list with prefix operators',
    'Integer and Single results of + - * and unary minus are not distinguished when all operands are integers '
    '(pcbasic computes them in single precision; not observable from BASIC)',
    'unary minus applied to a string is not judged (GW-BASIC returns the string; corpus test STROPER)',
    'unary plus is not in the statement and is not generated',
    'when several subtrees are in error, any of the errors of the innermost failing subtrees is accepted',
    'a missing operand inside parentheses may raise Syntax error instead of Missing operand (corpus EXPRERR)',
    'typing of \\ MOD and the logical operators (integer) is taken from C02, not from this statement',
]

# precedence table of the statement (higher binds tighter)
BIN = [
    ('^', 13), ('*', 11), ('/', 11), ('\\', 10), ('MOD', 9), ('+', 8), ('-', 8),
    ('=', 7), ('<>', 7), ('<', 7), ('>', 7), ('<=', 7), ('>=', 7),
    ('AND', 5), ('OR', 4), ('XOR', 3), ('EQV', 2), ('IMP', 1),
]
UN = [('-', 12), ('NOT', 6)]
ALT = {'=<': '<=', '=>': '>=', '><': '<>'}
BPREC = dict(BIN)
for _a, _b in ALT.items():
    BPREC[_a] = BPREC[_b]
UPREC = dict(UN)
BIN_REDUCED = ['^', '*', '/', '\\', 'MOD', '+', '-', '=', '<', 'AND', 'IMP']

BFUNC = {
    '^': V.pow, '*': V.mul, '/': V.div, '\\': V.intdiv, 'MOD': V.mod_, '+': V.add, '-': V.sub,
    '=': V.eq, '<>': V.neq, '<': V.lt, '>': V.gt, '<=': V.lte, '>=': V.gte,
    'AND': V.and_, 'OR': V.or_, 'XOR': V.xor_, 'EQV': V.eqv_, 'IMP': V.imp_,
    '=<': V.lte, '=>': V.gte, '><': V.neq,
}
UFUNC = {'-': V.neg, 'NOT': V.not_}

OPCLASS = {'^': 'pow', '*': 'mul', '/': 'mul', '\\': 'idiv', 'MOD': 'mod', '+': 'add', '-': 'add',
           'AND': 'and', 'OR': 'or', 'XOR': 'xor', 'EQV': 'eqv', 'IMP': 'imp'}


def opclass(op):
    return OPCLASS.get(op, 'rel')


# leaves: (text, type, python value) ; variables are set with Session.set_variable
LEAVES = {
    'I': [('2', 2), ('N%', -1), ('3', 3), ('M%', 5)],
    'S': [('2.5', 2.5), ('S!', -0.5), ('1.25', 1.25)],
    'D': [('7#', 7.0), ('D#', 0.1), ('3.5#', 3.5)],
    '$': [('"a"', b'a'), ('B$', b'b'), ('"ab"', b'ab')],
}
VARS = {'N%': -1, 'M%': 5, 'S!': -0.5, 'D#': 0.1, 'B$': b'b'}
SIGIL = {'I': b'%', 'S': b'!', 'D': b'#', '$': b'$'}

###############################################################################
# trees: ('L', i) leaf number i (left to right) | ('U', op, t) | ('B', op, l, r)


class Trees(object):
    def __init__(self, binops):
        self.binops = binops
        self.memo = {}

    def shapes(self, n):
        """All operator-labelled trees with n operator nodes (leaves unnumbered)."""
        if n in self.memo:
            return self.memo[n]
        if n == 0:
            out = [('L',)]
        else:
            out = []
            for op, _ in UN:
                for t in self.shapes(n - 1):
                    out.append(('U', op, t))
            for i in range(n):
                ls = self.shapes(i)
                rs = self.shapes(n - 1 - i)
                for op in self.binops:
                    for l in ls:
                        for r in rs:
                            out.append(('B', op, l, r))
        self.memo[n] = out
        return out


def number_leaves(t, k=0):
    """-> (tree with numbered leaves, next index)."""
    if t[0] == 'L':
        return ('L', k), k + 1
    if t[0] == 'U':
        c, k = number_leaves(t[2], k)
        return ('U', t[1], c), k
    l, k = number_leaves(t[2], k)
    r, k = number_leaves(t[3], k)
    return ('B', t[1], l, r), k


###############################################################################
# reference parser (precedence climbing, written from the statement) over token lists

def ref_parse(tokens):
    pos = [0]

    def peek():
        return tokens[pos[0]] if pos[0] < len(tokens) else None

    def primary():
        t = peek()
        if t is None:
            raise ValueError('operand expected')
        pos[0] += 1
        if t == '(':
            e = expr(0)
            if peek() != ')':
                raise ValueError(') expected')
            pos[0] += 1
            return e
        if isinstance(t, tuple) and t[0] == 'u':
            operand = expr(UPREC[t[1]] + 1)
            return ('U', t[1], operand)
        if isinstance(t, tuple) and t[0] == 'l':
            return ('L', t[1])
        raise ValueError('unexpected %r' % (t,))

    def expr(minprec):
        left = primary()
        while True:
            t = peek()
            if not (isinstance(t, tuple) and t[0] == 'b'):
                return left
            p = BPREC[t[1]]
            if p < minprec:
                return left
            pos[0] += 1
            right = expr(p + 1)       # left-to-right grouping at equal precedence
            left = ('B', t[1], left, right)

    e = expr(0)
    if pos[0] != len(tokens):
        raise ValueError('trailing tokens')
    return e


def tokens_of(t, parens, path=()):
    """Token list of tree t; parens = set of node paths that get parentheses."""
    if t[0] == 'L':
        toks = [('l', t[1])]
    elif t[0] == 'U':
        toks = [('u', t[1])] + tokens_of(t[2], parens, path + (0,))
    else:
        toks = tokens_of(t[2], parens, path + (0,)) + [('b', t[1])] + tokens_of(t[3], parens, path + (1,))
    if path in parens:
        toks = ['('] + toks + [')']
    return toks


def node_paths(t, path=(), leaves=False):
    out = []
    if t[0] == 'L':
        if leaves:
            out.append(path)
        return out
    out.append(path)
    if t[0] == 'U':
        out += node_paths(t[2], path + (0,), leaves)
    else:
        out += node_paths(t[2], path + (0,), leaves) + node_paths(t[3], path + (1,), leaves)
    return out


def minimal_parens(t):
    """Greedy removal of parentheses from the fully parenthesised form, keeping the
    reference parse equal to t."""
    parens = set(p for p in node_paths(t) if p != ())
    for p in sorted(parens, key=lambda q: (len(q), q)):
        trial = parens - {p}
        try:
            if ref_parse(tokens_of(t, trial)) == t:
                parens = trial
        except ValueError:
            pass
    if ref_parse(tokens_of(t, parens)) != t:
        raise CheckError('printer/parser disagreement on %r' % (t,))
    return parens


def render(tokens, leaftext, spaced):
    out = []
    for tk_ in tokens:
        if tk_ == '(' or tk_ == ')':
            out.append(tk_)
        elif tk_[0] == 'l':
            out.append(leaftext[tk_[1]])
        else:
            op = tk_[1]
            if op.isalpha():
                out.append(' ' + op + ' ')
            elif spaced:
                out.append(' ' + op + ' ')
            else:
                out.append(op)
    return ''.join(out).strip().encode('ascii')


###############################################################################
# evaluation

class Env(object):
    def __init__(self, double=False):
        self.s = H.new_session(double=double) if double else H.new_session()
        self.impl = self.s._impl
        self.vals = self.impl.values
        for name, v in VARS.items():
            self.s.set_variable(name, v)
        self.double = double
        # the statement-level parser object
        self.parser = self.impl.parser
        self.tokeniser = self.impl.tokeniser
        for need in ('parse_expression',):
            if not hasattr(self.parser, need):
                raise CheckError('parser.%s missing' % need)
        self.strings = self.impl.memory.strings
        # count soft float errors (Division by zero / Overflow that print a message and go on):
        # their results are outside the typing rules
        self.soft = 0
        handler = self.vals.error_handler
        orig = handler.handle

        def counting(e, _orig=orig):
            self.soft += 1
            return _orig(e)
        handler.handle = counting

    def leaf(self, ty, value):
        return self.vals.from_value(value, SIGIL[ty])

    def parse(self, text):
        """-> ('ok', class name, bytes) | ('err', code) | ('trailing', rest)"""
        toks = self.tokeniser.tokenise_line(b'?' + text)
        toks.read(2)
        try:
            v = self.parser.parse_expression(toks)
        except error.BASICError as e:
            return ('err', e.err)
        rest = toks.skip_blank()
        if rest not in (b'', b'\0'):
            return ('trailing', toks.read())
        return pack(v)


def pack(v):
    if isinstance(v, S.String):
        return ('ok', 'String', bytes(v.to_str()))
    return ('ok', type(v).__name__, bytes(v.to_bytes()))


def tree_eval(env, t, leafvals):
    """Bottom-up value with the values.* functions.
    -> ('ok', Value) or ('errs', set of codes of the innermost failing nodes)."""
    if t[0] == 'L':
        ty, value = leafvals[t[1]]
        return ('ok', env.leaf(ty, value))
    if t[0] == 'U':
        c = tree_eval(env, t[2], leafvals)
        if c[0] != 'ok':
            return c
        try:
            return ('ok', UFUNC[t[1]](c[1]))
        except error.BASICError as e:
            return ('errs', {e.err})
        except Exception as e:
            return ('exc', e)
    l = tree_eval(env, t[2], leafvals)
    r = tree_eval(env, t[3], leafvals)
    if l[0] == 'exc':
        return l
    if r[0] == 'exc':
        return r
    if l[0] != 'ok' or r[0] != 'ok':
        errs = set()
        if l[0] != 'ok':
            errs |= l[1]
        if r[0] != 'ok':
            errs |= r[1]
        return ('errs', errs)
    try:
        return ('ok', BFUNC[t[1]](l[1], r[1]))
    except error.BASICError as e:
        return ('errs', {e.err})
    except Exception as e:
        return ('exc', e)


RANK = {'I': 0, 'S': 1, 'D': 2}
CLS = {'Integer': 'I', 'Single': 'S', 'Double': 'D', 'String': '$'}


def typing(t, types, double):
    """Type rules of the statement.  -> (allowed classes or None if not judged, predicted type
    for the parent, mismatch flag).  Returns ('T', allowed set, nominal) | ('E13',) | ('?',)."""
    if t[0] == 'L':
        ty = types[t[1]]
        return ('T', {ty}, ty)
    if t[0] == 'U':
        c = typing(t[2], types, double)
        if c[0] != 'T':
            return c
        ty = c[2]
        if t[1] == 'NOT':
            return ('E13',) if ty == '$' else ('T', {'I'}, 'I')
        if ty == '$':
            return ('?',)
        return ('T', {'I', 'S'} if ty == 'I' else {ty}, ty)
    l = typing(t[2], types, double)
    r = typing(t[3], types, double)
    if l[0] == '?' or r[0] == '?':
        return ('?',)
    if l[0] == 'E13' or r[0] == 'E13':
        return ('E13',)
    a, b = l[2], r[2]
    op = t[1]
    strs = (a == '$') + (b == '$')
    if op in ('=', '<>', '<', '>', '<=', '>=', '=<', '=>', '><'):
        return ('E13',) if strs == 1 else ('T', {'I'}, 'I')
    if op == '+' and strs == 2:
        return ('T', {'$'}, '$')
    if strs:
        return ('E13',)
    if op in ('\\', 'MOD', 'AND', 'OR', 'XOR', 'EQV', 'IMP'):
        return ('T', {'I'}, 'I')
    wide = a if RANK[a] >= RANK[b] else b
    if op in ('+', '-', '*'):
        return ('T', {'I', 'S'} if wide == 'I' else {wide}, wide)
    # / and ^ : never integer
    w = 'S' if wide == 'I' else wide
    return ('T', {w}, w)


def has_pow_double(t, types):
    """Does the tree contain a ^ whose operand type (by the statement's rules) is Double?"""
    def ty(n):
        r = typing(n, types, True)
        return r[2] if r[0] == 'T' else None
    if t[0] == 'L':
        return False
    if t[0] == 'U':
        return has_pow_double(t[2], types)
    if t[1] == '^' and 'D' in (ty(t[2]), ty(t[3])):
        return True
    return has_pow_double(t[2], types) or has_pow_double(t[3], types)


###############################################################################
# the check of one tree under one leaf assignment

_FORMS = {}


def forms_of(t):
    """Token lists of the three printings of t (cached: they do not depend on the leaves)."""
    f = _FORMS.get(t)
    if f is None:
        if len(_FORMS) > 50000:
            _FORMS.clear()
        mp = minimal_parens(t)
        full = set(p for p in node_paths(t) if p != ())
        red = set(node_paths(t, leaves=True))
        f = (('minimal', tokens_of(t, mp), False), ('full', tokens_of(t, full), True),
             ('redundant', tokens_of(t, red), False))
        _FORMS[t] = f
    return f


def check_tree(part, env, t, nleaves, types, legname, want_typing):
    leaftext = []
    leafvals = []
    for i, ty in enumerate(types):
        text, value = LEAVES[ty][i % len(LEAVES[ty])]
        leaftext.append(text)
        leafvals.append((ty, value))
    env.strings.reset_temporaries()
    soft0 = env.soft
    exp = tree_eval(env, t, leafvals)
    if exp[0] == 'ok':
        expv = pack(exp[1])
    forms = tuple((name, render(toks, leaftext, spaced)) for name, toks, spaced in forms_of(t))
    root = t[1] if t[0] != 'L' else 'leaf'
    kid = '-'
    if t[0] == 'B':
        for side, c in (('l', t[2]), ('r', t[3])):
            if c[0] != 'L':
                kid = '%s:%s%s' % (side, 'u' if c[0] == 'U' else '', opclass(c[1]) if c[0] == 'B' else c[1])
                break
    elif t[0] == 'U' and t[2][0] != 'L':
        kid = 'c:%s' % (opclass(t[2][1]) if t[2][0] == 'B' else 'u' + t[2][1])
    if exp[0] == 'exc':
        outcome = 'host-exception'
    else:
        outcome = 'value' if exp[0] == 'ok' else 'E' + '+'.join(str(c) for c in sorted(exp[1]))
    part.classes.add('%s%s/%s/%s' % ('u' if t[0] == 'U' else '', opclass(root) if t[0] == 'B' else root,
                                     kid, outcome))
    part.outcome(outcome if exp[0] != 'ok' else expv[1])
    got_min = None
    for form, text in forms:
        case = {'expr': text, 'form': form, 'tree': repr(t), 'types': ''.join(types), 'double': env.double}
        try:
            got = env.parse(text)
        except Exception as e:
            from mc.core import from_pcbasic
            if from_pcbasic(e):
                part.violation('host-exception/%s' % H.exc_key(e),
                               'PRINT %s raises %r' % (text.decode(), e), case)
                continue
            raise
        part.n += 1
        part.traces += 1
        if form == 'minimal':
            got_min = got
        if exp[0] == 'exc':
            # the operator function itself failed with a host exception while evaluating the tree
            # (the parser run above would have failed the same way): judged by the typing oracle below
            pass
        elif exp[0] == 'ok':
            if got != expv:
                part.violation(
                    diff_key(form, t, got, expv),
                    'PRINT %s -> %r, operator tree %s gives %r' % (text.decode(), show(got), show_tree(t, leaftext), show(expv)),
                    case)
        else:
            if not (got[0] == 'err' and got[1] in exp[1]):
                part.violation(
                    '%s/error-expected/%s' % (form, got[0] if got[0] != 'err' else 'other-error'),
                    'PRINT %s -> %r, operator tree %s raises one of %r' % (
                        text.decode(), show(got), show_tree(t, leaftext), sorted(exp[1])),
                    case)
    if not want_typing or got_min is None or env.soft != soft0:
        return
    ty = typing(t, types, env.double)
    case = {'expr': forms[0][1], 'form': 'minimal', 'tree': repr(t), 'types': ''.join(types), 'double': env.double}
    if ty[0] == 'E13':
        # (a value error in a deeper subtree may pre-empt the Type mismatch)
        if exp[0] == 'exc':
            pass        # reported as host exception by the parse above
        elif exp[0] == 'ok' or got_min[0] != 'err':
            part.violation('typing/type-mismatch-not-raised',
                           'PRINT %s -> %r; the statement requires Type mismatch' % (forms[0][1].decode(), show(got_min)),
                           case)
        part.classes.add('typing/E13')
    elif ty[0] == 'T' and got_min[0] == 'ok':
        c = CLS[got_min[1]]
        if c not in ty[1]:
            if (not env.double) and c == 'S' and ty[1] == {'D'} and has_pow_double(t, types):
                key = 'typing/pow-with-double-operand-gives-single'
            else:
                key = 'typing/%s-result-is-%s-expected-%s' % (
                    opclass(root) if t[0] == 'B' else 'u' + root, c, ''.join(sorted(ty[1])))
            part.violation(key, 'PRINT %s -> %s; the statement requires type %s' % (
                forms[0][1].decode(), got_min[1], '/'.join(sorted(ty[1]))), case)
        if ty[2] == 'I' and t[0] == 'B' and opclass(t[1]) == 'rel':
            v = int.from_bytes(got_min[2], 'little', signed=True)
            if v not in (-1, 0):
                part.violation('typing/relational-value-not-0-or--1', '%s -> %d' % (forms[0][1].decode(), v), case)
        part.classes.add('typing/%s->%s' % (''.join(sorted(set(types))), c))


def root_of_failure(t, types):
    """Operator + operand kinds of the innermost operator with a string operand (for keys)."""
    found = []

    def walk(n):
        if n[0] == 'L':
            return types[n[1]]
        if n[0] == 'U':
            c = walk(n[2])
            if c == '$':
                found.append('%s(%s)' % (n[1], c))
            return 'n' if n[1] == 'NOT' else c
        a, b = walk(n[2]), walk(n[3])
        a = '$' if a == '$' else 'n'
        b = '$' if b == '$' else 'n'
        if '$' in (a, b):
            found.append('%s(%s,%s)' % (n[1], a, b))
        return '$' if (n[1] == '+' and a == b == '$') else 'n'
    walk(t)
    return found[0] if found else 'numeric'


def diff_key(form, t, got, expv):
    """Stable class of a wrong-value failure: form + root/child operator classes."""
    root = opclass(t[1]) if t[0] == 'B' else 'u' + t[1]
    kids = []
    for c in t[2:]:
        if c[0] == 'B':
            kids.append(opclass(c[1]))
        elif c[0] == 'U':
            kids.append('u' + c[1])
    what = 'error' if got[0] == 'err' else ('trailing' if got[0] == 'trailing' else (
        'wrong-type' if got[1] != expv[1] else 'wrong-value'))
    return '%s/%s(%s)/%s' % (form, root, ','.join(kids) or '-', what)


def show(x):
    if x[0] == 'ok':
        return '%s %s' % (x[1], x[2].hex() if x[1] != 'String' else repr(x[2]))
    return x


def show_tree(t, leaftext):
    if t[0] == 'L':
        return leaftext[t[1]]
    if t[0] == 'U':
        return '%s[%s]' % (t[1], show_tree(t[2], leaftext))
    return '[%s %s %s]' % (show_tree(t[2], leaftext), t[1], show_tree(t[3], leaftext))


###############################################################################
# legs

NUM_PATTERNS = ['ISD', 'DIS']        # rotating numeric leaf types for the grouping leg


def patterns_grouping(k):
    return [tuple(p[i % 3] for i in range(k)) for p in NUM_PATTERNS]


def patterns_all(k):
    out = [()]
    for _ in range(k):
        out = [p + (c,) for p in out for c in 'ISD$']
    return out


def root_shards(trees, n, maxsize):
    """Shard descriptors covering all trees with n operator nodes:
    ('U', op) | ('B', op, i, lo, hi)   (left subtree = shapes(i)[lo:hi])."""
    out = []
    if n == 0:
        return [('L',)]
    for op, _ in UN:
        out.append(('U', op))
    for i in range(n):
        nl = len(trees.shapes(i))
        nr = len(trees.shapes(n - 1 - i))
        step = max(1, maxsize // max(1, nr))
        for op in trees.binops:
            for lo in range(0, nl, step):
                out.append(('B', op, i, lo, min(nl, lo + step)))
    return out


def iter_shard(trees, n, sh):
    if sh[0] == 'L':
        yield ('L',)
    elif sh[0] == 'U':
        for c in trees.shapes(n - 1):
            yield ('U', sh[1], c)
    else:
        _, op, i, lo, hi = sh
        rs = trees.shapes(n - 1 - i)
        for l in trees.shapes(i)[lo:hi]:
            for r in rs:
                yield ('B', op, l, r)


_TREES = {}


def get_trees(reduced):
    if reduced not in _TREES:
        _TREES[reduced] = Trees(BIN_REDUCED if reduced else [b[0] for b in BIN])
    return _TREES[reduced]


def work_trees(shard):
    legname, n, reduced, mode, double, sh = shard
    part = Partial()
    env = Env(double=double)
    trees = get_trees(reduced)
    count = 0
    for shape in iter_shard(trees, n, sh):
        t, k = number_leaves(shape)
        if mode == 'grouping':
            pats = patterns_grouping(k)
            if n >= 4:
                pats = pats[:1]         # one rotating type pattern at the deepest level
        else:
            pats = patterns_all(k)
        for types in pats:
            check_tree(part, env, t, k, types, legname, want_typing=True)
            count += 1
            if count % 2000 == 0:
                # fresh session from time to time (string space, temporaries)
                env = Env(double=double)
    part.sample({'shard': repr(shard)})
    return part


# missing operands and alternative spellings ------------------------------------------------

def work_missing(shard):
    part = Partial()
    env = Env()
    trees = get_trees(True)
    for n, idx_lo, idx_hi in [shard]:
        shapes = trees.shapes(n)[idx_lo:idx_hi]
        for shape in shapes:
            t, k = number_leaves(shape)
            full = set(p for p in node_paths(t) if p != ())
            for pat, form, parens in [(pat, f, pr) for pat in ('ISD', '$IS')
                                      for f, pr in (('minimal', minimal_parens(t)), ('full', full))]:
                types = tuple(pat[i % 3] for i in range(k))
                leaftext = [LEAVES[ty][i % len(LEAVES[ty])][0] for i, ty in enumerate(types)]
                leafvals = [(ty, LEAVES[ty][i % len(LEAVES[ty])][1]) for i, ty in enumerate(types)]
                toks = tokens_of(t, parens)
                for drop in range(k):
                    toks2 = [x for x in toks if x != ('l', drop)]
                    text = render(toks2, leaftext, False)
                    pos = toks.index(('l', drop))
                    at_end = pos == len(toks) - 1
                    prev = toks[pos - 1] if pos else None
                    nxt = toks[pos + 1] if pos + 1 < len(toks) else None
                    relops = ('=', '<>', '<', '>', '<=', '>=')
                    if nxt is not None and nxt != ')' and nxt[0] == 'b' and nxt[1] in ('+', '-'):
                        continue        # the operator becomes a unary sign: a valid expression
                    if (prev is not None and prev != '(' and prev[0] == 'b' and prev[1] in relops
                            and nxt is not None and nxt != ')' and nxt[0] == 'b' and nxt[1] in relops):
                        continue        # < and = merge into <=
                    got = env.parse(text)
                    part.n += 1
                    part.traces += 1
                    case = {'expr': text, 'form': form, 'dropped_leaf': drop}
                    where = 'end' if at_end else ('before-)' if nxt == ')' else 'inside')
                    part.classes.add('missing/%s/%s' % (where, 'after-unary' if prev and prev != '(' and prev[0] == 'u' else 'after-binary' if prev and prev != '(' else 'first'))
                    part.outcome(str(got[:2]) if got[0] == 'err' else got[0])
                    if at_end:
                        ok = got == ('err', error.MISSING_OPERAND)
                    else:
                        ok = got[0] == 'err' and got[1] in (error.MISSING_OPERAND, error.STX)
                    if not ok and got[0] == 'err' and got[1] in complete_subtree_errors(env, t, drop, leafvals):
                        # a complete subexpression to the left fails by itself (e.g. negative base with a
                        # fractional exponent) before the parser can notice the missing operand
                        ok = True
                        part.classes.add('missing/pre-empted-by-value-error')
                    if not ok:
                        if got[0] != 'err':
                            key = 'missing-operand/%s/no-error' % where
                        elif got[1] in (error.MISSING_OPERAND, error.STX):
                            key = 'missing-operand/%s/code-%d' % (where, got[1])
                        else:
                            # e.g. PRINT "a"+2*  : the pending operators are applied to the operands that
                            # are there (shifted by one) and fail before the shortage is noticed
                            key = 'missing-operand/other-error-from-operators-applied-to-shifted-operands'
                        part.violation(key,
                                       'PRINT %s -> %r; expected %s' % (text.decode(), show(got),
                                                                         'Missing operand' if at_end else 'Missing operand or Syntax error'),
                                       case)
    return part


def complete_subtree_errors(env, t, drop, leafvals):
    """Error codes raised by the maximal subtrees of t that do not contain leaf `drop`."""
    out = set()

    def has(n):
        if n[0] == 'L':
            return n[1] == drop
        return any(has(c) for c in n[2:])

    def walk(n):
        if not has(n):
            r = tree_eval(env, n, leafvals)
            if r[0] == 'errs':
                out.update(r[1])
            return
        for c in n[2:]:
            walk(c)
    walk(t)
    return out


def work_alt(shard):
    """Alternative relational spellings =< => >< as root / child with every other operator."""
    part = Partial()
    env = Env()
    binops = [b[0] for b in BIN]
    for alt in shard:
        for other in binops + list(ALT):
            for shape in (('B', alt, ('B', other, ('L',), ('L',)), ('L',)),
                          ('B', alt, ('L',), ('B', other, ('L',), ('L',))),
                          ('B', other, ('B', alt, ('L',), ('L',)), ('L',)),
                          ('B', other, ('L',), ('B', alt, ('L',), ('L',))),
                          ('B', alt, ('U', '-', ('L',)), ('L',)),
                          ('B', alt, ('L',), ('U', 'NOT', ('L',))),
                          ('U', 'NOT', ('B', alt, ('L',), ('L',)))):
                t, k = number_leaves(shape)
                for types in patterns_grouping(k) + [tuple('$' for _ in range(k))]:
                    check_tree(part, env, t, k, types, 'alt', want_typing=True)
    return part


def legs(ctx):
    out = []
    q = ctx.quick
    full = get_trees(False)
    red = get_trees(True)
    # grouping: numeric leaves, all operators
    nmax = 3 if q else 4
    shards = []
    for n in range(0, nmax + 1):
        for sh in root_shards(full, n, 3000 if q else 12000):
            shards.append(('grouping', n, False, 'grouping', False, sh))
    total = sum(len(full.shapes(n)) for n in range(nmax + 1))
    out.append(Leg('grouping', shards, work_trees, exhaustive=True,
                   bound='all %d operator trees with <= %d operator nodes over 18 binary + 2 unary operators x 2 '
                         'rotating numeric leaf type patterns (1 at 4 nodes) x 3 printings' % (total, nmax)))
    # typing: all leaf type patterns
    for double in (False, True):
        shards = []
        tot = 0
        plan = [(n, False) for n in range(0, 3)] + ([] if (q or double) else [(3, True)])
        for n, reduced in plan:
            tr = red if reduced else full
            for sh in root_shards(tr, n, 400 if q else 300):
                shards.append(('typing', n, reduced, 'typing', double, sh))
            tot += len(tr.shapes(n))
        out.append(Leg('typing-double' if double else 'typing', shards, work_trees, exhaustive=True,
                       bound='all %d trees with <= 2 operator nodes (all operators)%s x every assignment of '
                             '{integer, single, double, string} to the leaves x 3 printings; session option double=%s' % (
                                 tot, '' if (q or double) else
                                 ' and all trees with 3 nodes over the reduced alphabet %s' % BIN_REDUCED, double)))
    # missing operands
    shards = []
    for n in range(1, 3 if q else 4):
        m = len(red.shapes(n))
        for lo in range(0, m, 400):
            shards.append((n, lo, min(m, lo + 400)))
    out.append(Leg('missing-operand', shards, work_missing, exhaustive=True,
                   bound='every single-leaf deletion from every tree with <= %d nodes (reduced alphabet), minimal and '
                         'full parentheses, numeric leaves and leaves starting with a string' % (2 if q else 3)))
    out.append(Leg('alt-spelling', [[a] for a in ALT], work_alt, exhaustive=True,
                   bound='=< => >< as parent / child of every binary operator and with unary operators'))
    return out


def replay(ctx, leg, case):
    part = Partial()
    env = Env(double=bool(case.get('double')))
    text = case['expr']
    if isinstance(text, str):
        text = text.encode('ascii')
    if leg == 'missing-operand':
        got = env.parse(text)
        if not (got[0] == 'err' and got[1] in (error.MISSING_OPERAND, error.STX)):
            key = ('missing-operand/other-error-from-operators-applied-to-shifted-operands'
                   if got[0] == 'err' else 'missing-operand/replay/no-error')
            part.violation(key, 'PRINT %s -> %r; expected Missing operand (or Syntax error inside parentheses)' % (
                text.decode(), show(got)), case)
        return part
    t = eval(case['tree'], {'__builtins__': {}})
    k = len(case['types'])
    check_tree(part, env, t, k, tuple(case['types']), leg, want_typing=True)
    return part
