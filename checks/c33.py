"""
C33 - DRAW moves the pen exactly as its commands specify (no angle commands).

E1 over a bounded grammar, through Session.execute('PSET (sx,sy),c : DRAW <expr>'):

  seq     : ALL command sequences of length <= L over a 27-token alphabet
            {U D3 L2 R E2 F G3 H  M+3,-2 M-1,+4 M20,30 BM7,9  BU2 NR3 BM+1,+1 NM-2,-3 NM5,6  S1 S6 S8
             Ca Cb  X+VARPTR$(A$) XQ$(1);  D=+VARPTR$(K%) L=N%;  ;}
            from two start points (interior; 2 pixels from the corner so that moves leave the screen).
            quick: L=2 in 4 modes + L=3 in one mode; thorough: L=3 in 4 modes + L=4 in one mode.
  scales  : every scale S1..S255 x 12 move commands (thorough; quick: 40 scales)
  lexical : every token in lower case / with blanks / followed by ';', alone and in pairs,
            plus the other variable-reference forms (named scalar X, VARPTR$ of array elements, =var;)

Oracle: reference pen (models/gml.py, from the statement): POINT(0)/POINT(1) == final position;
page == start pixel + for every drawn segment in order the pixel set that the implementation's own
LINE (x0,y0)-(x1,y1) produces on a scratch session of the same mode, in the segment's colour.
"""
import re

from mc.core import Leg, Partial, CheckError
from mc import harness as H
from mc import gfxlib as G
from models import gml

PROPERTY = 'C33'
ENGINE = 'E1 domain'
LEVEL = 'model_checking'
LEVEL_TEXT = (
    'Bounded exhaustive enumeration of DRAW strings: every sequence of up to 4 commands (thorough; one '
    'mode) / 3 commands (4 modes: packed 2bpp, 1bpp, planar, Tandy SCREEN 6) over a 27-token alphabet '
    'covering all eight directions with and without counts, relative and absolute M, B and N prefixes on '
    'both kinds of move, three scales with non-trivial truncation, colour changes, X substrings and '
    'variable references by name and by VARPTR$, from an interior start and from a start 2 pixels from '
    'the screen corner; plus every scale 1..255 with every move command. Final position is compared with '
    'POINT(0)/POINT(1) and the complete page with the union of the lines LINE itself draws.'
)
LEVEL_NOTE = (
    'Trusted: the reference pen in models/gml.py; the implementation\'s LINE as the line oracle (the property '
    'is relative to LINE; LINE itself is decided by C31); page matrix read at display.pages[0]._pixels._rows.'
)
TECHNIQUE = ('bounded exhaustive enumeration of GML command sequences on the real interpreter (DRAW through '
             'Session.execute, POINT through Session.evaluate) against a reference pen model and LINE-on-scratch-page')
RULE = ('all sequences of length <= L over the token alphabet x start points x modes; a case class is a '
        'kind or a pair of token kinds occurring together in a string (direction, diagonal, relative M, absolute M, '
        'B, N, scale, colour, substring, variable, separator), plus "pen left the screen"; non-trivial = every '
        'pair class')
ASSUMPTIONS = [
    'every string is prefixed with "S4C<c>" so that scale and colour at the start are defined (the statement '
    'does not say what they are after PSET)',
    'a B or N prefix is only generated directly in front of its move command',
    'X substrings are interpreted as if inlined (scale and colour set inside persist)',
    'colour arguments are kept within the attribute range of the mode (DRAW "C5" in a 4-attribute mode stores '
    'pixel value 5: reported separately, outside this statement)',
    'internal seam: display.pages[0]._pixels._rows (read; zeroed between cases)',
    'lexical leg: lower case, blanks around a command / between a command letter and an unsigned literal / '
    'after the comma, and ";" separators are assumed not to change the meaning',
]

MODES4 = [('cga', 1), ('cga', 2), ('vga', 7), ('tandy', 6)]

# two string arrays and two integer arrays, so that a VARPTR$ of an element of the first of each
# kind is not the last array in memory
SETUP = (b'A$="U2R3":DIM P$(2),Q$(2),V%(3),W%(2):P$(1)="D9":P$(2)="NE2":Q$(1)="S4BM+2,+0NL4":Q$(2)="F2"'
         b':K%=2:N%=3:V%(1)=4:V%(2)=1:W%(0)=9:W%(1)=7:W%(2)=8:S!=2:J%=-3:D#=3:H!=2.5:G#=4.5')

mv, rel, ab = gml.move, gml.rel, gml.absolute


def V(name):
    return ('v', name)


def token_table(nattr):
    """-> list of (name, text parts, primitives, kinds)"""
    ca, cb = (1, 2) if nattr > 2 else (1, 0)
    sub_a = [mv('U', 2), mv('R', 3)]
    sub_q1 = [gml.scale(4), rel(2, 0, plot=False), mv('L', 4, goback=True)]
    T = [
        ('U', [b'U'], [mv('U')], 'dir'),
        ('D3', [b'D3'], [mv('D', 3)], 'dir'),
        ('L2', [b'L2'], [mv('L', 2)], 'dir'),
        ('R', [b'R'], [mv('R')], 'dir'),
        ('E2', [b'E2'], [mv('E', 2)], 'diag'),
        ('F', [b'F'], [mv('F')], 'diag'),
        ('G3', [b'G3'], [mv('G', 3)], 'diag'),
        ('H', [b'H'], [mv('H')], 'diag'),
        ('M+3,-2', [b'M+3,-2'], [rel(3, -2)], 'mrel'),
        ('M-1,+4', [b'M-1,+4'], [rel(-1, 4)], 'mrel'),
        ('M20,30', [b'M20,30'], [ab(20, 30)], 'mabs'),
        ('BM7,9', [b'BM7,9'], [ab(7, 9, plot=False)], 'B+mabs'),
        ('BU2', [b'BU2'], [mv('U', 2, plot=False)], 'B'),
        ('NR3', [b'NR3'], [mv('R', 3, goback=True)], 'N'),
        ('BM+1,+1', [b'BM+1,+1'], [rel(1, 1, plot=False)], 'B+mrel'),
        ('NM-2,-3', [b'NM-2,-3'], [rel(-2, -3, goback=True)], 'N+mrel'),
        ('NM5,6', [b'NM5,6'], [ab(5, 6, goback=True)], 'N+mabs'),
        ('S1', [b'S1'], [gml.scale(1)], 'scale'),
        ('S6', [b'S6'], [gml.scale(6)], 'scale'),
        ('S8', [b'S8'], [gml.scale(8)], 'scale'),
        ('Ca', [b'C%d' % ca], [gml.colour(ca)], 'colour'),
        ('Cb', [b'C%d' % cb], [gml.colour(cb)], 'colour'),
        ('X(A$)', [b'X', V(b'A$')], sub_a, 'xsub'),
        ('XQ$(1);', [b'XQ$(1);'], sub_q1, 'xsub'),
        ('D=(K%)', [b'D=', V(b'K%')], [mv('D', 2)], 'var'),
        ('L=N%;', [b'L=N%;'], [mv('L', 3)], 'var'),
        (';', [b';'], [], 'sep'),
    ]
    return T


def extra_tokens(nattr):
    """Other reference forms and scale/prefix combinations (lexical leg)."""
    return [
        ('XA$;', [b'XA$;'], [mv('U', 2), mv('R', 3)], 'xsub'),
        ('X(Q$(1))', [b'X', V(b'Q$(1)')], [gml.scale(4), rel(2, 0, plot=False), mv('L', 4, goback=True)], 'xsub'),
        ('X(Q$(2))', [b'X', V(b'Q$(2)')], [mv('F', 2)], 'xsub'),
        ('X(P$(2))', [b'X', V(b'P$(2)')], [mv('E', 2, goback=True)], 'xsub'),
        ('XP$(1);', [b'XP$(1);'], [mv('D', 9)], 'xsub'),
        ('U=V%(2);', [b'U=V%(2);'], [mv('U', 1)], 'var'),
        ('R=(V%(1))', [b'R=', V(b'V%(1)')], [mv('R', 4)], 'var'),
        ('E=S!;', [b'E=S!;'], [mv('E', 2)], 'var'),
        ('H=(W%(1))', [b'H=', V(b'W%(1)')], [mv('H', 7)], 'var'),
        ('M+=K%;,=J%;', [b'M+=K%;,=J%;'], [rel(2, -3)], 'var+mrel'),
        ('M=(K%),=(N%)', [b'M=', V(b'K%'), b',=', V(b'N%')], [ab(2, 3)], 'var+mabs'),
        ('BNU3', [b'BNU3'], [mv('U', 3, plot=False, goback=True)], 'B+N'),
        ('NBM+2,+2', [b'NBM+2,+2'], [rel(2, 2, plot=False, goback=True)], 'B+N+mrel'),
        ('NM30,2', [b'NM30,2'], [ab(30, 2, goback=True)], 'N+mabs'),
        ('E=(S!)', [b'E=', V(b'S!')], [mv('E', 2)], 'var'),
        ('F=(D#)', [b'F=', V(b'D#')], [mv('F', 3)], 'var'),
        # variables holding a half: rounded to the nearest whole number, halves away from zero (2.5 -> 3, 4.5 -> 5)
        ('R=H!;', [b'R=H!;'], [mv('R', 3)], 'var'),
        ('D=(G#)', [b'D=', V(b'G#')], [mv('D', 5)], 'var'),
        ('S255', [b'S255'], [gml.scale(255)], 'scale'),
        ('S4', [b'S4'], [gml.scale(4)], 'scale'),
        ('M+0,+0', [b'M+0,+0'], [rel(0, 0)], 'mrel'),
        ('U0', [b'U0'], [mv('U', 0)], 'dir'),
        ('M-3,2', [b'M-3,2'], [rel(-3, 2)], 'mrel'),
    ]


def expr_of(parts):
    """BASIC string expression for a list of text parts."""
    out = []
    lit = b''
    for p in parts:
        if isinstance(p, tuple):
            if lit:
                out.append(b'"' + lit + b'"')
                lit = b''
            out.append(b'VARPTR$(' + p[1] + b')')
        else:
            lit += p
    if lit or not out:
        out.append(b'"' + lit + b'"')
    return b'+'.join(out)


class Rig(object):
    """Test session + scratch session (for LINE) of one mode."""

    def __init__(self, adapter, nr):
        self.g = G.Gfx(adapter, nr)
        self.ref = G.Gfx(adapter, nr)
        g = self.g
        g.assert_seam()
        g.must(SETUP)
        self.W, self.H = g.w, g.h
        self.c0 = g.maxattr
        self.tag = '%s/%d' % (adapter, nr)
        self.starts = [(100, 100), (2, 3), (self.W - 3, self.H - 2)]
        self._lines = {}
        self.zero = bytes(self.W)

    def close(self):
        self.g.close()
        self.ref.close()

    def _collect(self, g):
        """non-zero pixels of page 0 -> dict; zeroes the page"""
        out = {}
        zero = self.zero
        for y, row in enumerate(g.rows(0)):
            if row != zero:
                lo = len(row) - len(row.lstrip(b'\0'))
                hi = len(row.rstrip(b'\0'))
                for x in range(lo, hi):
                    v = row[x]
                    if v:
                        out[(x, y)] = v
                row[:] = zero
        return out

    def lineset(self, x0, y0, x1, y1):
        """Pixel set of the implementation's LINE (x0,y0)-(x1,y1) on the scratch session."""
        key = (x0, y0, x1, y1)
        s = self._lines.get(key)
        if s is None:
            r = H.run(self.ref.s, b'LINE (%d,%d)-(%d,%d),1' % key)
            if r.err is not None or r.exc is not None:
                raise CheckError('scratch LINE %r failed: %r' % (key, r))
            s = frozenset(self._collect(self.ref))
            self._lines[key] = s
        return s

    def evaluate(self, start, parts, prims):
        """Run one DRAW string. -> set of failure descriptions [(type, text)]"""
        g = self.g
        sx, sy = start
        c0 = self.c0
        expr = expr_of([b'S4C%d' % c0] + parts)
        stmt = b'PSET (%d,%d),%d:DRAW %s' % (sx, sy, c0, expr)
        r = H.run(g.s, stmt)
        fails = []
        if r.exc is not None:
            self._collect(g)
            return stmt, [('host-exception/' + H.exc_key(r.exc), repr(r.exc))]
        if r.err is not None:
            g.must(b'CLS')
            self._collect(g)
            return stmt, [('basic-error-%d' % r.err, 'error %d' % r.err)]
        try:
            px = g.s.evaluate(b'POINT(0)')
            py = g.s.evaluate(b'POINT(1)')
        except Exception as e:
            self._collect(g)
            return stmt, [('point-host-exception', repr(e))]
        actual = self._collect(g)
        pen = gml.Pen(sx, sy).run([gml.scale(4), gml.colour(c0)] + prims)
        if (px, py) != (pen.x, pen.y):
            fails.append(('position', 'POINT(0),POINT(1) = (%r,%r), reference pen at (%d,%d)' % (px, py, pen.x, pen.y)))
        exp = {(sx, sy): c0} if (0 <= sx < self.W and 0 <= sy < self.H) else {}
        for (x0, y0, x1, y1, col) in pen.segments:
            for p in self.lineset(x0, y0, x1, y1):
                exp[p] = col
        exp = {p: v for p, v in exp.items() if v}
        if actual != exp:
            missing = sorted(p for p in exp if p not in actual)
            extra = sorted(p for p in actual if p not in exp)
            wrong = sorted(p for p in exp if p in actual and actual[p] != exp[p])
            fails.append(('pixels', 'missing %r extra %r wrong-colour %r (segments %r)' % (
                missing[:5], extra[:5], [(p, actual[p], exp[p]) for p in wrong[:4]], pen.segments[:6])))
        self.offscreen = not (0 <= pen.x < self.W and 0 <= pen.y < self.H)
        return stmt, fails


def _check(rig, part, leg, start_i, toks, table):
    """Evaluate one token sequence; on failure shrink to a minimal failing subsequence."""
    start = rig.starts[start_i]
    parts = [p for t in toks for p in table[t][1]]
    prims = [p for t in toks for p in table[t][2]]
    stmt, fails = rig.evaluate(start, parts, prims)
    part.n += 1
    part.traces += 1
    kinds = sorted(set(k for t in toks for k in table[t][3].split('+')))
    # class labels: every kind and every pair of kinds occurring together
    for i, k1 in enumerate(kinds):
        part.classes.add('%s/%s' % (leg, k1))
        for k2 in kinds[i + 1:]:
            part.classes.add('%s/%s+%s' % (leg, k1, k2))
    if getattr(rig, 'offscreen', False):
        part.classes.add('%s/pen-left-screen' % leg)
    if not fails:
        part.outcome('ok')
        return
    for ftype, ftext in fails:
        # greedy shrink: drop tokens while the same failure type persists
        cur = list(toks)
        shrunk = True
        while shrunk and len(cur) > 1:
            shrunk = False
            for i in range(len(cur)):
                cand = cur[:i] + cur[i + 1:]
                _, f2 = rig.evaluate(start, [p for t in cand for p in table[t][1]],
                                     [p for t in cand for p in table[t][2]])
                if any(ft == ftype for ft, _ in f2):
                    cur = cand
                    shrunk = True
                    break
        mstmt, mf = rig.evaluate(start, [p for t in cur for p in table[t][1]], [p for t in cur for p in table[t][2]])
        mtext = next((tx for ft, tx in mf if ft == ftype), ftext)
        # key: failure type + minimal token sequence (lexical variants share the key of their token)
        key = '%s/%s' % (ftype, ' '.join(table[t][0].split('/')[0] for t in cur))
        part.violation(key, '%s start %r: %r: %s' % (rig.tag, start, mstmt, mtext),
                       {'leg': leg, 'mode': [rig.g.adapter, rig.g.nr], 'start': start_i,
                        'tokens': [table[t][0] for t in cur], 'original': [table[t][0] for t in toks]})
    part.outcome('fail')


def _extend(prefix, ntok, maxlen):
    yield prefix
    if len(prefix) < maxlen:
        for t in range(ntok):
            for s in _extend(prefix + (t,), ntok, maxlen):
                yield s


def work_seq(shard):
    adapter, nr, start_i, prefixes, maxlen = shard
    part = Partial()
    rig = Rig(adapter, nr)
    try:
        table = token_table(rig.g.nattr)
        n = len(table)
        for prefix in prefixes:
            if prefix is None:
                # all sequences shorter than the sharding prefix length
                plen = 2 if maxlen >= 3 else 1
                seqs = _extend((), n, plen - 1)
            else:
                seqs = _extend(tuple(prefix), n, maxlen)
            for toks in seqs:
                _check(rig, part, 'seq', start_i, toks, table)
        part.sample({'mode': [adapter, nr], 'start': rig.starts[start_i], 'prefixes': [list(p) if p else None for p in prefixes[:2]],
                     'maxlen': maxlen})
        part.add('distinct_lines', len(rig._lines))
    finally:
        rig.close()
    return part


MOVES12 = [('U', 1), ('D', 3), ('L', 2), ('R', 5), ('E', 1), ('F', 3), ('G', 2), ('H', 5)]


def work_scales(shard):
    adapter, nr, scales = shard
    part = Partial()
    rig = Rig(adapter, nr)
    try:
        for sc in scales:
            table = [('S%d' % sc, [b'S%d' % sc], [gml.scale(sc)], 'scale')]
            for (l, n) in MOVES12:
                table.append(('%s%d' % (l, n), [b'%s%d' % (l.encode(), n)], [mv(l, n)], 'dir'))
            table.append(('M+3,-2', [b'M+3,-2'], [rel(3, -2)], 'mrel'))
            table.append(('M-5,+1', [b'M-5,+1'], [rel(-5, 1)], 'mrel'))
            table.append(('NM-1,-7', [b'NM-1,-7'], [rel(-1, -7, goback=True)], 'N+mrel'))
            table.append(('BM+6,+2', [b'BM+6,+2'], [rel(6, 2, plot=False)], 'B+mrel'))
            for t in range(1, len(table)):
                _check(rig, part, 'scales', 0, (0, t), table)
        part.sample({'mode': [adapter, nr], 'scales': scales[:3]})
    finally:
        rig.close()
    return part


def _lexical_variants(tok):
    name, parts, prims, kinds = tok
    out = []

    def tr(fn, tag):
        np_ = [p if isinstance(p, tuple) else fn(p) for p in parts]
        out.append((name + tag, np_, prims, kinds))
    # lower case (variable names are case-insensitive in BASIC too)
    tr(lambda b: b.lower(), '/lower')
    # blanks before and after the command
    out.append((name + '/blanks', [b' '] + parts + [b' '], prims, kinds))
    # a blank between the command letter(s) and an unsigned literal argument, and after the comma
    if len(parts) == 1 and re.match(br'^[BN]?[A-Z][0-9]+(,[0-9]+)?$', parts[0]):
        t = re.sub(br'^([BN]?[A-Z])', br'\1 ', parts[0]).replace(b',', b', ')
        out.append((name + '/inner-blank', [t], prims, kinds))
    # the same for a relative move: a blank between M and the sign that makes it relative
    if len(parts) == 1 and re.match(br'^[BN]{0,2}M[+-][0-9]+,[+-]?[0-9]+$', parts[0]):
        t = re.sub(br'^([BN]{0,2}M)', br'\1 ', parts[0]).replace(b',', b' , ')
        out.append((name + '/inner-blank', [t], prims, kinds))
    # trailing separator
    if not (isinstance(parts[-1], bytes) and parts[-1].endswith(b';')):
        out.append((name + '/;', parts + [b';'], prims, kinds))
    return out


def work_lexical(shard):
    adapter, nr = shard
    part = Partial()
    rig = Rig(adapter, nr)
    try:
        base = token_table(rig.g.nattr)
        table = []
        for tok in base[:-1] + extra_tokens(rig.g.nattr):
            table.append(tok)
        nbase = len(table)
        for tok in list(table):
            table.extend(_lexical_variants(tok))
        # singles
        for t in range(len(table)):
            for st in (0, 1):
                _check(rig, part, 'lexical', st, (t,), table)
        # pairs: (variant or extra) x base and base x (variant or extra)
        nb = len(base) - 1
        for t in range(nb, len(table)):
            for u in range(nb):
                _check(rig, part, 'lexical', 0, (t, u), table)
                _check(rig, part, 'lexical', 0, (u, t), table)
        part.sample({'mode': [adapter, nr], 'tokens': len(table)})
    finally:
        rig.close()
    return part


def _seq_shards(modes, starts, maxlen, ntok):
    shards = []
    plen = 2 if maxlen >= 3 else 1
    for (a, n) in modes:
        for st in starts:
            shards.append((a, n, st, [None], maxlen))
            if plen == 1:
                prefixes = [(t,) for t in range(ntok)]
                per = 6
            else:
                prefixes = [(t, u) for t in range(ntok) for u in range(ntok)]
                per = 13 if maxlen == 3 else 2
            for i in range(0, len(prefixes), per):
                shards.append((a, n, st, prefixes[i:i + per], maxlen))
    return shards


# state carried from one DRAW statement to the next (scale, colour, position), also when a
# statement breaks off with Illegal function call: what was executed stays, the rejected command
# changes nothing

def persist_units(c0):
    mv_, rl = gml.move, gml.rel
    return [
        # (text, primitives executed, fails)
        (b'R4', [mv_('R', 4)], False),
        (b'U2M+3,-5', [mv_('U', 2), rl(3, -5)], False),
        (b'S8', [gml.scale(8)], False),
        (b'S1L9', [gml.scale(1), mv_('L', 9)], False),
        (b'C1D3', [gml.colour(1), mv_('D', 3)], False),
        (b'BM50,60', [gml.absolute(50, 60, plot=False)], False),
        (b'E2', [mv_('E', 2)], False),
        (b'S0', [], True),
        (b'S300', [], True),
        (b'R2S256U9', [mv_('R', 2)], True),
        (b'D3S0R9', [mv_('D', 3)], True),
        (b'F2QU9', [mv_('F', 2)], True),
        (b'C%dL2S-1' % c0, [gml.colour(c0), mv_('L', 2)], True),
        # not a DRAW statement: CLS puts the pen back at the centre and the scale back to 4 (the colour is set again)
        (b'@CLS', [], False),
    ]


def work_persist(shard):
    import itertools
    adapter, nr, firsts, length = shard
    part = Partial()
    rig = Rig(adapter, nr)
    g = rig.g
    try:
        units = persist_units(rig.c0)
        sx, sy = 100, 120
        TEXT_ROWS = 48      # error messages are printed in the top text rows: pixels above this line are not compared
        for first in firsts:
            for rest in itertools.product(range(len(units)), repeat=length - 1):
                seq = (first,) + rest
                case = {'leg': 'persist', 'mode': [adapter, nr], 'units': list(seq)}
                texts = [units[i][0].decode() for i in seq]
                g.must(b'LOCATE 1,1:PSET (%d,%d),%d:DRAW "S4C%d"' % (sx, sy, rig.c0, rig.c0))
                pen = gml.Pen(sx, sy).run([gml.scale(4), gml.colour(rig.c0)])
                part.n += 1
                part.traces += 1
                bad = None
                start_pixel = {(sx, sy): rig.c0}
                for k, i in enumerate(seq):
                    text, prims, fails = units[i]
                    if text == b'@CLS':
                        g.must(b'CLS')
                        r = H.run(g.s, b'DRAW "C%d"' % rig.c0)
                        pen.x, pen.y = g.w // 2, g.h // 2
                        pen.scale, pen.colour = 4, rig.c0
                        del pen.segments[:]
                        start_pixel = {}
                    else:
                        r = H.run(g.s, b'DRAW "%s"' % text)
                    pen.run(prims)
                    if r.exc is not None:
                        bad = ('persist/host-exception/' + H.exc_key(r.exc), repr(r.exc))
                        break
                    if (r.err == 5) != fails or (r.err not in (None, 5)):
                        bad = ('persist/%s' % ('error-missed' if fails else 'unexpected-error-%s' % r.err),
                               'statement %d DRAW "%s" gave error %r' % (k, text.decode(), r.err))
                        break
                    px, py = g.s.evaluate(b'POINT(0)'), g.s.evaluate(b'POINT(1)')
                    if (px, py) != (pen.x, pen.y):
                        prevfail = k > 0 and units[seq[k - 1]][2]
                        bad = ('persist/position/%s' % ('after-failed-statement' if (fails or prevfail) else 'plain'),
                               'after statement %d of %r POINT gives (%r,%r), reference pen at (%d,%d)' % (
                                   k, texts, px, py, pen.x, pen.y))
                        break
                actual = rig._collect(g)
                if bad is None:
                    exp = dict(start_pixel)
                    for (x0, y0, x1, y1, col) in pen.segments:
                        for p_ in rig.lineset(x0, y0, x1, y1):
                            exp[p_] = col
                    exp = {p_: v for p_, v in exp.items() if v and p_[1] >= TEXT_ROWS}
                    actual = {p_: v for p_, v in actual.items() if p_[1] >= TEXT_ROWS}
                    if actual != exp:
                        bad = ('persist/pixels', 'statements %r: %d pixels differ from the reference' % (
                            texts, len(set(actual.items()) ^ set(exp.items()))))
                if bad:
                    part.violation(bad[0], '%s: %s' % (rig.tag, bad[1]), case)
                    g.must(b'CLS')
                    rig._collect(g)
                part.classes.add('persist/%s' % ''.join('F' if units[i][2] else 'v' for i in seq))
                part.outcome('fail' if bad else 'ok')
        part.sample({'mode': [adapter, nr], 'leg': 'persist', 'first': list(firsts)})
    finally:
        rig.close()
    return part


def legs(ctx):
    out = _legs(ctx)
    nun = len(persist_units(3))
    modes = MODES4[:2] if ctx.quick else MODES4
    length = 3 if ctx.quick else 4
    out.append(Leg('persist', [(a, n, [f], length) for (a, n) in modes for f in range(nun)], work_persist, exhaustive=True,
                   bound='all sequences of %d DRAW statements over %d units (7 valid ones setting scale / colour / position, 6 that '
                         'break off with Illegal function call after 0-2 executed commands), without re-initialisation in '
                         'between, %d modes' % (length, nun, len(modes))))
    return out


def _legs(ctx):
    ntok = len(token_table(4))
    out = []
    if ctx.quick:
        s1 = _seq_shards(MODES4, (0, 1), 2, ntok)
        s2 = _seq_shards(MODES4[:1], (1,), 3, ntok)
        out.append(Leg('seq', s1 + s2, work_seq, exhaustive=True,
                       bound='all sequences of <= 2 of %d tokens x 2 starts x 4 modes (%d strings) + all sequences of '
                             '<= 3 tokens from the near-corner start in cga SCREEN 1 (%d strings)' % (
                                 ntok, (1 + ntok + ntok ** 2) * 8, 1 + ntok + ntok ** 2 + ntok ** 3)))
        scales = [1, 2, 3, 4, 5, 6, 7, 8, 9, 10, 11, 12, 13, 15, 16, 17, 20, 24, 31, 32, 33, 40, 48, 50, 63, 64, 65,
                  96, 100, 127, 128, 129, 160, 192, 200, 250, 253, 254, 255]
        out.append(Leg('scales', [('cga', 1, scales[i:i + 10]) for i in range(0, len(scales), 10)], work_scales,
                       exhaustive=True, bound='%d scales x 12 move commands, cga SCREEN 1' % len(scales)))
        out.append(Leg('lexical', [MODES4[0], MODES4[3]], work_lexical, exhaustive=True,
                       bound='every token + 21 further reference/prefix forms, each also lower-cased / blank-padded / '
                             '";"-terminated: singles from 2 starts and all pairs with the base alphabet, 2 modes'))
    else:
        s1 = _seq_shards(MODES4, (0, 1), 3, ntok)
        s2 = _seq_shards(MODES4[:1], (1, 2), 4, ntok)
        out.append(Leg('seq', s1 + s2, work_seq, exhaustive=True,
                       bound='all sequences of <= 3 of %d tokens x 2 starts x 4 modes (%d strings) + all sequences of '
                             '<= 4 tokens x 2 near-corner starts in cga SCREEN 1 (%d strings)' % (
                                 ntok, (1 + ntok + ntok ** 2 + ntok ** 3) * 8,
                                 2 * (1 + ntok + ntok ** 2 + ntok ** 3 + ntok ** 4))))
        scales = list(range(1, 256))
        out.append(Leg('scales', [(a, n, scales[i:i + 15]) for (a, n) in (MODES4[0], MODES4[1])
                                  for i in range(0, 255, 15)], work_scales,
                       exhaustive=True, bound='all 255 scales x 12 move commands, 2 modes'))
        out.append(Leg('lexical', list(MODES4), work_lexical, exhaustive=True,
                       bound='every token + 21 further reference/prefix forms, each also lower-cased / blank-padded / '
                             '";"-terminated: singles from 2 starts and all pairs with the base alphabet, 4 modes'))
    return out


def replay(ctx, leg, case):
    if case.get('leg') == 'persist':
        # the shard runs all continuations of the first unit; the violation is found again among them
        return work_persist((case['mode'][0], case['mode'][1], [case['units'][0]], len(case['units'])))
    part = Partial()
    adapter, nr = case['mode']
    rig = Rig(adapter, nr)
    try:
        base = token_table(rig.g.nattr)
        table = list(base) + extra_tokens(rig.g.nattr)
        for tok in list(table):
            table.extend(_lexical_variants(tok))
        for sc in range(1, 256):
            table.append(('S%d' % sc, [b'S%d' % sc], [gml.scale(sc)], 'scale'))
        for (l, n) in MOVES12:
            table.append(('%s%d' % (l, n), [b'%s%d' % (l.encode(), n)], [mv(l, n)], 'dir'))
        table.append(('M-5,+1', [b'M-5,+1'], [rel(-5, 1)], 'mrel'))
        table.append(('NM-1,-7', [b'NM-1,-7'], [rel(-1, -7, goback=True)], 'N+mrel'))
        table.append(('BM+6,+2', [b'BM+6,+2'], [rel(6, 2, plot=False)], 'B+mrel'))
        names = {}
        for i, t in enumerate(table):
            names.setdefault(t[0], i)
        toks = tuple(names[nm] for nm in case['tokens'])
        _check(rig, part, leg, case['start'], toks, table)
    finally:
        rig.close()
    return part
